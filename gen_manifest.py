#!/usr/bin/env python3
"""Writes MANIFEST.json from one table, so that it is always schema-valid and consistent."""
import json, os
V = os.path.dirname(os.path.abspath(__file__))

CHECKS = {
 "C01": ("exploration", "4 C01", "Seeded search over wake schedules and fault sequences (spurious polls, fresh waker per poll, stale/duplicate/in-poll/lock-boundary wakes, never-ready children) with the notification invariant (CP1/CP2) checked at every event and bounded liveness checked at quiescence against per-family reference models, flat and nested shapes and group histories, all three feature configurations (engine A); plus the std waker protocol under real thread interleavings of a poller and 1-3 foreign waker threads decided by shuttle's seeded Random/PCT schedulers, where a lost wake-up is a detected deadlock (engine B)."),
 "C02": ("fault_enumeration", "4 C02", "For each sampled scenario every crash point is enumerated: drop of the combinator after k polls for all k, and a panic at every single child poll; drop/return accounting of every child and value (plain-integer handles with canaries) is checked at the end of each execution. Engine B adds drops of the combinator on the poller thread while foreign waker threads still fire. The thorough tier additionally interprets a sample of the same executions under Miri; a process killed by a signal is reported as a violation with the execution that caused it."),
 "C03": ("exploration", "4 C03", "Log predicates over every simulated execution: no poll after Ready/None, every child poll inside a poll frame of its owner, none during construction, group operations or drop, and none when a combinator is polled again after its final result (fault F15)."),
 "C04": ("exploration", "4 C04", "Log-relative reference model of join evaluated at the end of every root poll (resolves exactly in the frame of the last child, positional output), all containers and sizes incl. 22/23 and 64/65 boundaries."),
 "C05": ("exploration", "4 C05", "Log-relative reference model of try_join (first observed error wins in that frame, nothing polled afterwards, produced values dropped not returned)."),
 "C06": ("exploration", "4 C06", "Log-relative reference model of race (first child seen to resolve wins in that frame; losers never polled again and dropped unfinished)."),
 "C07": ("exploration", "4 C07", "Log-relative reference model of race_ok (first Ok wins; Err only with the last failure; positional aggregate)."),
 "C08": ("exploration", "4 C08", "Log-relative + script-relative model of merge (exactly-once multiset, per-input order, None iff all ended incl. zero inputs)."),
 "C09": ("exploration", "4 C09", "Reference model of zip (row k = k-th items positionally, ends with the first None, at most one extra item taken, unmatched items dropped once)."),
 "C10": ("exploration", "4 C10", "Reference model of chain (concatenation, strictly sequential first polls)."),
 "C11": ("exploration", "4 C11", "Seeded operation histories (insert/remove of any key ever returned/reserve/extend/poll/wake/drop) against a map model of FutureGroup; set view compared after every operation."),
 "C12": ("exploration", "4 C12", "Seeded operation histories against a map model of StreamGroup; per-member order, exactly-once items, set view after every operation."),
 "C13": ("exploration", "4 C13", "Simulated source stream and scripted closure futures under the seeded scheduler; exactly-once closure calls, in-flight bound checked at every event, structured completion and cancellation."),
 "C14": ("exploration", "4 C14", "As C13 for try_for_each and collect into Result: never Ok with an observed Err, error identity, no source item taken after the first error, in-flight work dropped."),
 "C15": ("exploration", "4 C15", "Adapter stacks over {map, enumerate, take, limit} with terminals collect/for_each/try_for_each against a sequential model of processed items."),
 "C16": ("exploration", "4 C16", "Log predicate in the std configuration: a child that last returned Pending is polled again only if some waker handed to it (or to an earlier holder of its group key) fired in between; spurious polls emphasised."),
 "C17": ("exploration", "4 C17", "Sliding-window check over the provenance of yielded items with one always-ready input at a drawn position."),
 "C19": ("exploration", "4 C19", "Log-relative model of wait_until for futures and streams (inner untouched before the deadline, deadline never polled afterwards, pass-through from the very same poll), also for the chained form x.wait_until(d1).wait_until(d2) and for polls after the inner stream ended."),
 "C20": ("exploration", "4 C20", "At every Pending return every owned child has been polled; with never-ready children at drawn positions the finite siblings still complete and results are delivered (quiescence check)."),
}
IMPLEMENTED = [l.strip() for l in open(os.path.join(V, "implemented.txt")) if l.strip() and not l.startswith("#")]
NA = {
 "C18": "Send/Sync auto-trait preservation is a statement about types decided by the trait solver at compile time for all instantiations; it has no schedule, fault, clock or history for a simulator to sample, so deterministic simulation cannot decide it (DESIGN.md §5).",
}
checks = []
for pid in sorted(CHECKS):
    if pid not in IMPLEMENTED:
        continue
    level, ref, text = CHECKS[pid]
    checks.append({
        "property_id": pid,
        "quick_cmd": f"./check {pid} --tier quick",
        "thorough_cmd": f"./check {pid} --tier thorough",
        "evidence_file": f"/verif/evidence/{pid}.json",
        "replay_cmd_template": "./check replay {path}",
        "engine": "sim (engine A)" + (" + mt (engine B, shuttle)" if pid in ("C01", "C02") and os.path.isdir(os.path.join(V, "mt")) else ""),
        "level_claimed": {"category": level, "text": text, "design_ref": "DESIGN.md §" + ref},
        "level_note": "Trusted base: the simulator in /verif/sim (scripted children, generation-strict executor, reference-model oracles; no unsafe code), rustc, and the assumption that children follow the scripted-leaf language (finite scripts of Pending/Ready/Item/End steps, wakes between polls, inside polls, from another thread at lock boundaries, from destructors; no re-entrant polling of the combinator from a waker). Sampling of schedules/faults, not enumeration (C02: crash points are enumerated completely per sampled scenario). Sensitivity: 44 own mutants and 166 independently seeded property-breaking changes, see DESIGN.md section 11.",
        "technique": ("deterministic simulation with fault injection: seeded schedule/fault search with reference-model oracles over the event log" + ("; complete crash-point enumeration per sampled scenario" if pid == "C02" else "") + ("; shuttle-controlled thread interleavings" if pid in ("C01", "C02") else "")),
    })
na = [{"property_id": k, "reason": v} for k, v in NA.items()]
for pid in sorted(CHECKS):
    if pid not in IMPLEMENTED:
        na.append({"property_id": pid, "reason": "check not implemented yet in this tree (planned: DESIGN.md §" + CHECKS[pid][1] + "); not claimed"})
m = {
 "version": 1,
 "setup_cmd": "./check build",
 "hooks": {
  "guard": "--cfg futures_concurrency_verif",
  "enable": "RUSTFLAGS=--cfg futures_concurrency_verif via /verif/sim/.cargo/config.toml (engine A) and /verif/mt/.cargo/config.toml, which adds --cfg 'futures_concurrency_verif=\"shuttle\"' (engine B)",
  "baseline_off_cmd": "cd /repo && cargo test --workspace --no-fail-fast --offline",
  "source_commits": ["0e3d29962fa47121110795663527deb692987a02"],
  "add_only": True,
 },
 "engines": [
  {"name": "sim", "path": "/verif/sim", "serves_properties": [c["property_id"] for c in checks], "kind_free_text": "engine A: single-threaded deterministic discrete-event simulator; one choice stream per run decides generation, scheduling and faults; shrinker + replay files"},
 ],
 "checks": checks,
 "not_applicable": na,
 "notes": "All checks: ./check <ID> [--tier quick|thorough] [--seed N]; VERIF_SEED/VERIF_TIER honoured; exit 0/1/2 = held / violation / harness error (build failure, nondeterminism, driver exception). Known findings: /verif/known_findings.json (no open entry; three defects found by the machinery were repaired with fix: commits 3d2d4eb, ce43740 and 1f62ff7, replay files in /verif/findings/). New violations: replay files in /verif/replays/, re-run with ./check replay <file>. Sensitivity suites: ./check mutants [--seeded] (scratch worktrees, never /repo). Determinism proof: ./check selftest.",
}
if os.path.isdir(os.path.join(V, "mt")):
    m["engines"].append({"name": "mt", "path": "/verif/mt", "serves_properties": ["C01", "C02"], "kind_free_text": "engine B: shuttle-controlled threads (poller + foreign wakers) over the real crate built through a shadow manifest with shuttle::sync::Mutex behind the hook"})
json.dump(m, open(os.path.join(V, "MANIFEST.json"), "w"), indent=1)
print("MANIFEST.json:", len(checks), "checks,", len(na), "not applicable")
