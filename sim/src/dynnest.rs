//! Randomly generated nested shapes (up to three levels) over type-erased children.
//!
//! `nested.rs` holds 17 hand-written one-level shapes with concrete types. Here every node is a
//! boxed trait object (`Pin<Box<dyn Future<Output = Val>>>`, `.. Result<Val, Val> ..`,
//! `Pin<Box<dyn Stream<Item = Val>>>`), so the tree — family, container (tuple / array / Vec),
//! fan-out 1..3 and depth per node — is drawn from the choice stream. Every inner combinator is
//! wrapped in a probe exactly as in `nested.rs`; the per-node oracles (C01 CP1/CP2/liveness,
//! C02, C03, C16, C20) apply unchanged.

use crate::gen::{fut_script, stream_script, LeafPlan, Plan, Profile, Shape};
use crate::leaf::{Compose, Harvest, Probe, SProbe, SimFut, SimStream, Val};
use crate::roots::{FutRoot, Root, StreamRoot};
use crate::world::{with, Ev, Family, NodeId, World, NO_NODE, ROOT};
use futures_concurrency::future::{Join, Race, RaceOk, TryJoin};
use futures_concurrency::stream::{Chain, Merge, Zip};
use futures_core::Stream;
use std::future::Future;
use std::ops::Deref;
use std::pin::Pin;
use std::task::{Context, Poll};
use Family::*;

#[derive(Clone, Debug)]
pub enum DT {
    L,
    N { fam: Family, cont: u8, kids: Vec<DT> },
}

#[derive(Clone, Copy, PartialEq, Eq, Debug)]
enum Kind {
    Fut,
    Try,
    Stream,
}

fn kid_kind(f: Family) -> Kind {
    match f {
        Join | Race | FutGroup => Kind::Fut,
        TryJoin | RaceOk => Kind::Try,
        _ => Kind::Stream,
    }
}

const ALLOC: bool = cfg!(not(feature = "cfg-nostd"));

fn cont_name(c: u8) -> &'static str {
    match c {
        0 => "tuple",
        1 => "array",
        _ => "vec",
    }
}

pub fn describe(t: &DT) -> String {
    match t {
        DT::L => "L".into(),
        DT::N { fam, cont, kids } => {
            let c = if matches!(fam, FutGroup | StreamGroup) { String::new() } else { format!(" {}", cont_name(*cont)) };
            format!("{}{}[{}]", fam.name(), c, kids.iter().map(describe).collect::<Vec<_>>().join(","))
        }
    }
}

pub fn depth(t: &DT) -> usize {
    match t {
        DT::L => 0,
        DT::N { kids, .. } => 1 + kids.iter().map(depth).max().unwrap_or(0),
    }
}

pub fn root_family(t: &DT) -> Family {
    match t {
        DT::N { fam, .. } => *fam,
        DT::L => Leaf,
    }
}

fn gen_node(w: &mut World, kind: Kind, depth: u32, force: bool) -> DT {
    if !force && (depth == 0 || w.ch.draw("dyn.leaf", 3) == 0) {
        return DT::L;
    }
    let fams: &[Family] = match kind {
        Kind::Fut => &[Join, Race, Join],
        Kind::Try => &[TryJoin, RaceOk],
        Kind::Stream => {
            if ALLOC {
                &[Merge, Zip, Chain, StreamGroup, FutGroup, Merge]
            } else {
                &[Merge, Zip, Chain]
            }
        }
    };
    let fam = fams[w.ch.draw("dyn.fam", fams.len() as u32) as usize];
    let n = match w.ch.draw("dyn.n", 5) {
        0 => 1,
        1 | 2 => 2,
        _ => 3,
    };
    let cont = w.ch.draw("dyn.cont", if ALLOC { 3 } else { 2 }) as u8;
    let kk = kid_kind(fam);
    let kids = (0..n).map(|_| gen_node(w, kk, depth.saturating_sub(1), false)).collect();
    DT::N { fam, cont, kids }
}

pub fn plan(w: &mut World, p: &Profile) -> Plan {
    let kind = match w.ch.draw("dyn.root", 5) {
        0 | 1 => Kind::Fut,
        2 => Kind::Try,
        _ => Kind::Stream,
    };
    let depth = 2 + w.ch.draw("dyn.depth", 2);
    let tree = gen_node(w, kind, depth, true);
    let err_bias = w.ch.draw("err.bias", 5) + 1;
    let mut leaves = Vec::new();
    fn walk(w: &mut World, p: &Profile, t: &DT, parent: Family, err_bias: u32, out: &mut Vec<LeafPlan>) {
        match t {
            DT::L => {
                let lp = match kid_kind(parent) {
                    Kind::Stream => stream_script(w, p, true),
                    Kind::Try => fut_script(w, true, p, true, err_bias),
                    Kind::Fut => fut_script(w, false, p, true, err_bias),
                };
                out.push(lp);
            }
            DT::N { fam, kids, .. } => {
                for k in kids {
                    walk(w, p, k, *fam, err_bias, out);
                }
            }
        }
    }
    walk(w, p, &tree, Leaf, err_bias, &mut leaves);
    let cancel_at = if p.allow_cancel && w.ch.draw("cancel", 4) == 3 { Some(w.ch.draw("cancel.at", 6)) } else { None };
    Plan { shape: Shape::Dyn { tree }, leaves, cancel_at, max_yields: u32::MAX, distinguished: None }
}

// ------------------------------------------------------------------ adapters

type BF = Pin<Box<dyn Future<Output = Val>>>;
type BT = Pin<Box<dyn Future<Output = Result<Val, Val>>>>;
type BS = Pin<Box<dyn Stream<Item = Val>>>;

/// Composes the structured output of a combinator into one tracked value (the parts live inside it).
struct Composed<F> {
    node: NodeId,
    inner: Pin<Box<F>>,
}
impl<F: Future> Future for Composed<F>
where
    F::Output: Compose,
{
    type Output = <F::Output as Compose>::Out;
    fn poll(mut self: Pin<&mut Self>, cx: &mut Context<'_>) -> Poll<Self::Output> {
        let node = self.node;
        self.inner.as_mut().poll(cx).map(|o| o.compose(node).0)
    }
}
struct ComposedS<S> {
    node: NodeId,
    inner: Pin<Box<S>>,
}
impl<S: Stream> Stream for ComposedS<S>
where
    S::Item: Compose<Out = Val>,
{
    type Item = Val;
    fn poll_next(mut self: Pin<&mut Self>, cx: &mut Context<'_>) -> Poll<Option<Val>> {
        let node = self.node;
        self.inner.as_mut().poll_next(cx).map(|o| o.map(|i| i.compose(node).0))
    }
}
/// race_ok: the aggregate error cannot be taken apart; its errors are dropped with it and the node
/// reports a fresh error value of its own.
struct AggErr<F> {
    node: NodeId,
    inner: Pin<Box<F>>,
}
impl<F, E> Future for AggErr<F>
where
    F: Future<Output = Result<Val, E>>,
    E: Deref,
    E::Target: AsRef<[Val]>,
{
    type Output = Result<Val, Val>;
    fn poll(mut self: Pin<&mut Self>, cx: &mut Context<'_>) -> Poll<Self::Output> {
        let node = self.node;
        match self.inner.as_mut().poll(cx) {
            Poll::Pending => Poll::Pending,
            Poll::Ready(Ok(v)) => Poll::Ready(Ok(v)),
            Poll::Ready(Err(agg)) => {
                let mut ids = Vec::new();
                for v in agg.deref().as_ref() {
                    v.harvest(&mut ids);
                }
                drop(agg);
                let e = with(|w| Val::new(w, node));
                Poll::Ready(Err(e))
            }
        }
    }
}

// ------------------------------------------------------------------ building

struct Bx<'a> {
    plan: &'a Plan,
    next_leaf: usize,
}

impl Bx<'_> {
    fn leaf(&mut self, parent: NodeId, pfam: Family) -> NodeId {
        let lp = &self.plan.leaves[self.next_leaf];
        self.next_leaf += 1;
        let k = kid_kind(pfam);
        with(|w| w.new_leaf(parent, lp.script.clone(), lp.term, k == Kind::Stream, k == Kind::Try))
    }
    fn node(&mut self, parent: NodeId, pfam: Family, fam: Family) -> NodeId {
        with(|w| {
            let id = w.new_node(parent, fam);
            if parent != NO_NODE {
                let k = kid_kind(pfam);
                w.node_mut(id).fallible = k == Kind::Try;
                w.node_mut(id).is_stream = k == Kind::Stream;
            }
            id
        })
    }
}

macro_rules! by_container {
    ($kids:expr, $cont:expr, $ctor:path, |$f:ident| $wrap:expr) => {{
        let mut v = $kids;
        let n = v.len();
        match ($cont, n) {
            (0, 1) => {
                let a = v.pop().unwrap();
                let $f = Box::pin($ctor((a,)));
                $wrap
            }
            (0, 2) => {
                let b = v.pop().unwrap();
                let a = v.pop().unwrap();
                let $f = Box::pin($ctor((a, b)));
                $wrap
            }
            (0, _) => {
                let c = v.pop().unwrap();
                let b = v.pop().unwrap();
                let a = v.pop().unwrap();
                let $f = Box::pin($ctor((a, b, c)));
                $wrap
            }
            (1, 1) => {
                let a: [_; 1] = match v.try_into() {
                    Ok(a) => a,
                    Err(_) => unreachable!(),
                };
                let $f = Box::pin($ctor(a));
                $wrap
            }
            (1, 2) => {
                let a: [_; 2] = match v.try_into() {
                    Ok(a) => a,
                    Err(_) => unreachable!(),
                };
                let $f = Box::pin($ctor(a));
                $wrap
            }
            (1, _) => {
                let a: [_; 3] = match v.try_into() {
                    Ok(a) => a,
                    Err(_) => unreachable!(),
                };
                let $f = Box::pin($ctor(a));
                $wrap
            }
            #[cfg(not(feature = "cfg-nostd"))]
            _ => {
                let $f = Box::pin($ctor(v));
                $wrap
            }
            #[cfg(feature = "cfg-nostd")]
            _ => unreachable!("Vec containers need alloc"),
        }
    }};
}

/// Plain future node: the (un-probed) combinator of node `id` over its built children.
fn comb_fut(fam: Family, cont: u8, kids: &[DT], id: NodeId, bx: &mut Bx) -> BF {
    let ch: Vec<BF> = kids.iter().map(|k| build_fut(k, id, fam, bx)).collect();
    match fam {
        Join => by_container!(ch, cont, Join::join, |f| Box::pin(Composed { node: id, inner: f }) as BF),
        Race => by_container!(ch, cont, Race::race, |f| Box::pin(Composed { node: id, inner: f }) as BF),
        other => unreachable!("not a plain future family: {other:?}"),
    }
}
fn comb_try(fam: Family, cont: u8, kids: &[DT], id: NodeId, bx: &mut Bx) -> BT {
    let ch: Vec<BT> = kids.iter().map(|k| build_try(k, id, fam, bx)).collect();
    match fam {
        TryJoin => by_container!(ch, cont, TryJoin::try_join, |f| Box::pin(Composed { node: id, inner: f }) as BT),
        RaceOk => by_container!(ch, cont, RaceOk::race_ok, |f| Box::pin(AggErr { node: id, inner: f }) as BT),
        other => unreachable!("not a fallible future family: {other:?}"),
    }
}
fn comb_stream(fam: Family, cont: u8, kids: &[DT], id: NodeId, bx: &mut Bx) -> BS {
    match fam {
        Merge | Zip | Chain => {
            let ch: Vec<BS> = kids.iter().map(|k| build_stream(k, id, fam, bx)).collect();
            match fam {
                Merge => by_container!(ch, cont, Merge::merge, |f| Box::pin(ComposedS { node: id, inner: f }) as BS),
                Zip => by_container!(ch, cont, Zip::zip, |f| Box::pin(ComposedS { node: id, inner: f }) as BS),
                _ => by_container!(ch, cont, Chain::chain, |f| Box::pin(ComposedS { node: id, inner: f }) as BS),
            }
        }
        #[cfg(not(feature = "cfg-nostd"))]
        StreamGroup => {
            let mut g = futures_concurrency::stream::StreamGroup::new();
            for k in kids {
                let (child, cid) = build_stream_id(k, id, fam, bx);
                with(|w| w.in_group_op = true);
                let key = g.insert(child);
                with(|w| {
                    w.in_group_op = false;
                    w.node_mut(cid).key = Some(crate::group::key_index(&key));
                });
            }
            Box::pin(g)
        }
        #[cfg(not(feature = "cfg-nostd"))]
        FutGroup => {
            let mut g = futures_concurrency::future::FutureGroup::new();
            for k in kids {
                let (child, cid) = build_fut_id(k, id, fam, bx);
                with(|w| w.in_group_op = true);
                let key = g.insert(child);
                with(|w| {
                    w.in_group_op = false;
                    w.node_mut(cid).key = Some(crate::group::key_index(&key));
                });
            }
            Box::pin(g)
        }
        other => unreachable!("not a stream family in this configuration: {other:?}"),
    }
}

fn build_fut(t: &DT, parent: NodeId, pfam: Family, bx: &mut Bx) -> BF {
    build_fut_id(t, parent, pfam, bx).0
}
fn build_fut_id(t: &DT, parent: NodeId, pfam: Family, bx: &mut Bx) -> (BF, NodeId) {
    match t {
        DT::L => {
            let id = bx.leaf(parent, pfam);
            (Box::pin(SimFut::<Val>::new(id)), id)
        }
        DT::N { fam, cont, kids } => {
            let id = bx.node(parent, pfam, *fam);
            let inner = comb_fut(*fam, *cont, kids, id, bx);
            (Box::pin(Probe::new(id, inner)), id)
        }
    }
}
fn build_try(t: &DT, parent: NodeId, pfam: Family, bx: &mut Bx) -> BT {
    match t {
        DT::L => {
            let id = bx.leaf(parent, pfam);
            Box::pin(SimFut::<Result<Val, Val>>::new(id))
        }
        DT::N { fam, cont, kids } => {
            let id = bx.node(parent, pfam, *fam);
            let inner = comb_try(*fam, *cont, kids, id, bx);
            Box::pin(Probe::new(id, inner))
        }
    }
}
fn build_stream(t: &DT, parent: NodeId, pfam: Family, bx: &mut Bx) -> BS {
    build_stream_id(t, parent, pfam, bx).0
}
fn build_stream_id(t: &DT, parent: NodeId, pfam: Family, bx: &mut Bx) -> (BS, NodeId) {
    match t {
        DT::L => {
            let id = bx.leaf(parent, pfam);
            (Box::pin(SimStream::new(id)), id)
        }
        DT::N { fam, cont, kids } => {
            let id = bx.node(parent, pfam, *fam);
            let inner = comb_stream(*fam, *cont, kids, id, bx);
            (Box::pin(SProbe::new(id, inner)), id)
        }
    }
}

pub fn build(tree: &DT, plan: &Plan) -> Box<dyn Root> {
    let DT::N { fam, cont, kids } = tree else { unreachable!("root is always a node") };
    let mut bx = Bx { plan, next_leaf: 0 };
    let root = bx.node(NO_NODE, Leaf, *fam);
    debug_assert_eq!(root, ROOT);
    with(|w| {
        w.model.flat = false;
        w.model.dyn_root = true;
    });
    let r: Box<dyn Root> = match kid_kind_of_node(*fam) {
        Kind::Fut => FutRoot::new(comb_fut(*fam, *cont, kids, ROOT, &mut bx)),
        Kind::Try => FutRoot::new(comb_try(*fam, *cont, kids, ROOT, &mut bx)),
        Kind::Stream => StreamRoot::new(comb_stream(*fam, *cont, kids, ROOT, &mut bx)),
    };
    with(|w| w.emit(Ev::RootCreated { fam: w.node(ROOT).fam }));
    r
}

/// The kind of value a node of family `f` *is* (as opposed to what its children are).
fn kid_kind_of_node(f: Family) -> Kind {
    match f {
        Join | Race => Kind::Fut,
        TryJoin | RaceOk => Kind::Try,
        _ => Kind::Stream,
    }
}
