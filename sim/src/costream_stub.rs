//! no_std configuration: concurrent streams do not exist (they need `alloc`).
use crate::gen::{Plan, Profile};
use crate::leaf::Out;
use crate::roots::Root;
use crate::world::{NodeId, Res, World};

#[derive(Default)]
pub struct CoModel {
    pub active: bool,
}
#[derive(Clone, Debug)]
pub struct CoSpec {}
impl CoSpec {
    pub fn key(&self) -> String {
        "co".into()
    }
    pub fn describe(&self) -> String {
        "co".into()
    }
}
pub fn on_poll_end(_w: &mut World, _id: NodeId, _res: Res, _val: Option<u32>) {}
pub fn on_root_poll_end(_w: &mut World, _out: &Out) {}
pub fn at_root_drop_end(_w: &mut World) {}
pub fn blocked(_w: &World) -> Result<(), (NodeId, String)> {
    Ok(())
}
pub fn plan(w: &mut World, p: &Profile, _prop: &str) -> Plan {
    crate::gen::flat(w, p)
}
pub fn build(_spec: &CoSpec, _plan: &Plan) -> Box<dyn Root> {
    unreachable!("concurrent streams are not generated in the no_std configuration")
}
pub fn planned_items(_plan: &Plan) -> u32 {
    0
}
