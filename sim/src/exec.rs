//! The executor/scheduler: one run = one choice stream.
//!
//! The executor implements exactly the `Future::poll` contract: a fresh waker
//! generation per root poll (unless the "same waker" knob reuses it), only the
//! newest generation counts as a wake-up, and the root is polled only when
//! woken, when consumer-driven, or as an injected spurious poll.

use crate::choice::Choices;
use crate::gen::{Plan, Shape};
use crate::leaf::{self, classify, fire, task_waker, Caught, Out, Which};
use crate::roots::Root;
use crate::world::{self, with, Ev, Family, FireCtx, NodeId, Res, Stats, Violation, World, NO_NODE, ROOT};
use std::panic::{catch_unwind, AssertUnwindSafe};
use std::task::{Context, Waker};

#[derive(Clone, Copy, Debug, Default)]
pub struct FaultSpec {
    /// drop the root once it has been polled this many times (enumeration mode)
    pub cancel_after_polls: Option<u32>,
    /// turn the j-th child poll of the run into a panic (0 = none)
    pub panic_at_child_poll: u32,
    /// turn the j-th invocation of a user closure (for_each / map / try_for_each) into a panic (0 = none)
    pub panic_at_closure_call: u32,
    /// run without any drawn fault (for the fault-free reference execution)
    pub no_faults: bool,
}

pub struct RunResult {
    pub violation: Option<Violation>,
    pub harness_error: Option<String>,
    pub trace: Vec<(&'static str, u32)>,
    pub hash: u64,
    pub nontrivial: bool,
    pub stats: Stats,
    pub key: String,
    pub describe: String,
    pub root_polls: u32,
    pub child_polls: u32,
    pub closure_calls: u32,
    pub narration: Option<Vec<String>>,
}

pub struct Exec {
    root: Option<Box<dyn Root>>,
    task_wk: Option<(u32, Waker)>,
    plan: Plan,
    yields: u32,
    steps: u32,
    cap: u32,
}

pub const PANIC_IS_VIOLATION: &[&str] = &[
    "C01", "C04", "C05", "C06", "C07", "C08", "C09", "C10", "C11", "C12", "C13", "C14", "C15", "C17", "C19",
];

pub fn run(prop: &'static str, ch: Choices, faults: FaultSpec, narrate: bool) -> RunResult {
    let std_cfg = cfg!(feature = "cfg-std");
    let mut w = World::new(ch, prop, std_cfg);
    w.panic_at_child_poll = faults.panic_at_child_poll;
    w.panic_at_closure_call = faults.panic_at_closure_call;
    world::install(w);
    #[cfg(feature = "cfg-std")]
    futures_concurrency::__verif_sync::set_sync_hook(Some(leaf::sync_hook));

    let plan = with(|w| {
        let prof = crate::gen::profile(prop);
        w.knobs = crate::gen::knobs(w, prof.faults && !faults.no_faults);
        let mut plan = crate::gen::plan(w, prop);
        if let Some(k) = faults.cancel_after_polls {
            plan.cancel_at = Some(k);
        }
        if faults.no_faults {
            plan.cancel_at = faults.cancel_after_polls;
        }
        w.model.distinguished = plan.distinguished;
        plan
    });
    let key = plan.key();
    let describe = plan.describe();

    let mut ex = Exec { root: None, task_wk: None, plan, yields: 0, steps: 0, cap: 0 };
    ex.build();
    ex.main_loop();
    ex.finish();

    #[cfg(feature = "cfg-std")]
    futures_concurrency::__verif_sync::set_sync_hook(None);
    let mut w = world::uninstall();
    let hash = crate::narr::hash(&w);
    let narration = if narrate || w.violation.is_some() { Some(crate::narr::narrate(&w)) } else { None };
    let st = &w.stats;
    let nontrivial = w.nontrivial_pending
        && (st.f_spurious + st.f_stale + st.f_dup + st.f_inpoll + st.f_selfnow + st.f_lock + st.f_cancel + st.f_panic + st.f_new_waker + st.group_ops) > 0;
    w.stats.root_polls = w.nodes.first().map(|n| n.polls as u64).unwrap_or(0);
    RunResult {
        violation: w.violation.take(),
        harness_error: w.harness_error.take(),
        trace: std::mem::take(&mut w.ch.trace),
        hash,
        nontrivial,
        stats: w.stats.clone(),
        key,
        describe,
        root_polls: w.nodes.first().map(|n| n.polls).unwrap_or(0),
        child_polls: w.child_poll_counter,
        closure_calls: w.closure_call_counter,
        narration,
    }
}

impl Exec {
    fn build(&mut self) {
        let plan = self.plan.clone();
        let r = catch_unwind(AssertUnwindSafe(|| -> Box<dyn Root> {
            match &plan.shape {
                Shape::Flat { fam, cont, n, plain, unit } => {
                    let kids: Vec<NodeId> = with(|w| {
                        let root = w.new_node(NO_NODE, *fam);
                        debug_assert_eq!(root, ROOT);
                        w.model.flat = true;
                        let fallible = crate::gen::fallible(*fam);
                        let mut kids = Vec::with_capacity(*n);
                        for (i, lp) in plan.leaves.iter().enumerate() {
                            let is_stream = fam.is_stream() && !(matches!(fam, Family::WaitUntilS) && i >= 1);
                            kids.push(w.new_leaf(ROOT, lp.script.clone(), lp.term, is_stream, fallible));
                        }
                        if *n > 22 {
                            w.stats.p_big_len += 1;
                        }
                        w.emit(Ev::RootCreated { fam: *fam });
                        kids
                    });
                    if *plain && fam.is_stream() {
                        with(|w| w.model.unit_items = true);
                    } else if *plain {
                        with(|w| {
                            for &k in &kids {
                                w.node_mut(k).untracked_drop = true;
                                w.node_mut(k).drop_wake = None;
                            }
                        });
                    }
                    if *unit {
                        with(|w| w.model.unit_items = true);
                    }
                    crate::roots::build_flat(*fam, *cont, &kids, *plain, *unit)
                }
                Shape::Nested { kind } => crate::nested::build(*kind, &plan),
                Shape::Dyn { tree } => crate::dynnest::build(tree, &plan),
                Shape::Group { .. } => crate::group::build(&plan),
                Shape::Co { spec } => crate::costream::build(spec, &plan),
            }
        }));
        match r {
            Ok(root) => {
                self.root = Some(root);
                with(|w| {
                    w.root_alive = true;
                    let n = w.nodes.len() as u32;
                    let extra = match self.plan.max_yields {
                        y if y < 100_000 => 3 * y,
                        y if y < u32::MAX => 4 * (y - 1_000_000),
                        _ => 0,
                    };
                    w.log_limit = 40 * n as usize + 12 * extra as usize;
                    self.cap = 400 + 10 * n + extra + 4 * crate::group::planned_ops(&self.plan) + 8 * crate::costream::planned_items(&self.plan);
                });
            }
            Err(p) => {
                let c = classify(p);
                with(|w| {
                    if let Caught::Other(m) = c {
                        w.flag_current("panic", || format!("constructing the combinator panicked: {m}"));
                    }
                });
            }
        }
    }

    fn violated(&self) -> bool {
        with(|w| w.violation.is_some() || w.harness_error.is_some())
    }

    fn main_loop(&mut self) {
        if self.root.is_none() {
            return;
        }
        loop {
            if self.violated() {
                return;
            }
            self.steps += 1;
            if self.steps > self.cap {
                with(|w| {
                    let cap = self.cap;
                    w.flag("c01.steps", || format!("run did not reach quiescence within {cap} scheduler steps (livelock)"));
                });
                return;
            }
            // cancellation (F9)
            let cancel = with(|w| match self.plan.cancel_at {
                Some(k) => w.node(ROOT).polls >= k,
                None => false,
            });
            if cancel {
                with(|w| {
                    w.stats.f_cancel += 1;
                    w.emit(Ev::Fault { what: "cancel: drop the combinator", arg: w.node(ROOT).polls });
                });
                self.drop_root();
                return;
            }
            // enabled actions
            #[derive(Clone, Copy, PartialEq)]
            enum A {
                Poll,
                Deliver,
                Spurious,
                Stale,
                Group,
            }
            let mut menu: Vec<A> = Vec::with_capacity(24);
            let (can_poll, live_root, n_events, eager, p_sp, p_st, has_handed) = with(|w| {
                let live = w.root_alive && !w.root_done;
                let can_poll = live && (w.woken || w.consumer_driven()) && self.yields < self.plan.max_yields;
                let has_handed = w.knobs.p_stale > 0 && w.knobs.stale_budget > 0 && w.nodes.iter().any(|n| n.is_leaf() && !n.handed.is_empty());
                (can_poll, live, w.events.len(), w.knobs.p_eager_poll, w.knobs.p_spurious, w.knobs.p_stale, has_handed)
            });
            let group_ready = live_root && crate::group::op_enabled(&self.plan);
            if !can_poll && n_events == 0 && !group_ready {
                // quiescence
                with(|w| {
                    if w.root_alive && !w.root_done {
                        w.emit(Ev::Quiescent);
                    }
                    crate::oracle::at_quiescence(w);
                });
                return;
            }
            if can_poll {
                for _ in 0..eager {
                    menu.push(A::Poll);
                }
            }
            if n_events > 0 {
                for _ in 0..(17 - eager.min(16)) {
                    menu.push(A::Deliver);
                }
            }
            if group_ready {
                for _ in 0..6 {
                    menu.push(A::Group);
                }
            }
            let spurious_ok = with(|w| live_root && !can_poll && p_sp > 0 && w.knobs.spurious_budget > 0 && self.yields < self.plan.max_yields);
            if spurious_ok {
                for _ in 0..p_sp {
                    menu.push(A::Spurious);
                }
            }
            if has_handed {
                for _ in 0..p_st {
                    menu.push(A::Stale);
                }
            }
            let a = with(|w| menu[w.ch.draw("act", menu.len() as u32) as usize]);
            match a {
                A::Poll => self.poll_root(false),
                A::Spurious => {
                    with(|w| {
                        w.knobs.spurious_budget -= 1;
                        w.stats.f_spurious += 1;
                        w.emit(Ev::Fault { what: "spurious poll", arg: 0 });
                    });
                    self.poll_root(true)
                }
                A::Deliver => self.deliver(),
                A::Stale => self.stale(),
                A::Group => {
                    let r = catch_unwind(AssertUnwindSafe(|| {
                        let root = self.root.as_mut().unwrap();
                        crate::group::do_op(&mut self.plan, root.as_mut());
                    }));
                    if let Err(p) = r {
                        let c = classify(p);
                        with(|w| {
                            w.in_group_op = false;
                            w.emit(Ev::Caught { whence: "group operation: panic" });
                            if let Caught::Other(m) = c {
                                if PANIC_IS_VIOLATION.contains(&w.prop) {
                                    w.flag_current("panic", || format!("a group operation (insert/remove/reserve/extend or a set-view query) panicked: {m}"));
                                }
                            }
                        });
                        self.drop_root();
                        return;
                    }
                }
            }
        }
    }

    fn deliver(&mut self) {
        let (node, dup) = with(|w| {
            let i = w.ch.draw("deliver.which", w.events.len() as u32) as usize;
            let ev = w.events.remove(i);
            w.nodes[ev.node as usize].pending_events -= 1;
            if ev.due > w.now {
                w.stats.vtime += ev.due - w.now;
                w.now = ev.due;
                w.emit(Ev::Tick { t: w.now });
            }
            let dup = w.ch.chance("deliver.dup", w.knobs.p_dup, 16);
            if dup {
                w.stats.f_dup += 1;
            }
            (ev.node, dup)
        });
        let ctx = with(|w| if w.root_done { FireCtx::AfterRootDone } else { FireCtx::Between });
        fire(node, Which::Cur, ctx);
        if dup {
            fire(node, Which::Cur, ctx);
        }
    }

    fn stale(&mut self) {
        let pick = with(|w| {
            let cands: Vec<NodeId> =
                (0..w.nodes.len() as NodeId).filter(|&i| w.node(i).is_leaf() && !w.node(i).handed.is_empty()).collect();
            if cands.is_empty() {
                return None;
            }
            let n = cands[w.ch.draw("stale.node", cands.len() as u32) as usize];
            let i = w.ch.draw("stale.which", w.node(n).handed.len() as u32) as usize;
            w.knobs.stale_budget -= 1;
            w.stats.f_stale += 1;
            w.emit(Ev::Fault { what: "fire a stale/duplicate waker", arg: n });
            Some((n, i))
        });
        if let Some((n, i)) = pick {
            let ctx = with(|w| if w.root_done { FireCtx::AfterRootDone } else { FireCtx::Between });
            fire(n, Which::Handed(i), ctx);
        }
    }

    fn poll_root(&mut self, _spurious: bool) {
        let gen = with(|w| {
            crate::oracle::on_root_poll_begin(w);
            let same = w.gen_newest > 0 && w.ch.chance("poll.same_waker", w.knobs.p_same_waker, 16);
            if same {
                w.stats.f_same_waker += 1;
            } else {
                w.gen_newest += 1;
                if w.gen_newest > 1 {
                    w.stats.f_new_waker += 1;
                }
            }
            w.woken = false;
            w.group_op_since_poll = false;
            w.frame.clear();
            let gen = w.gen_newest;
            let r = w.node_mut(ROOT);
            r.frame.clear();
            r.in_poll = true;
            r.polls += 1;
            w.emit(Ev::PollBegin { node: ROOT, gen });
            gen
        });
        let waker = match &self.task_wk {
            Some((g, wk)) if *g == gen => wk.clone(),
            _ => {
                let wk = task_waker(gen);
                self.task_wk = Some((gen, wk.clone()));
                wk
            }
        };
        let root = self.root.as_mut().unwrap();
        let mut cx = Context::from_waker(&waker);
        let r = catch_unwind(AssertUnwindSafe(|| root.poll(&mut cx)));
        let mut poisoned = false;
        match r {
            Ok(out) => {
                if out.res == Res::Some {
                    self.yields += 1;
                }
                with(|w| Self::root_poll_end(w, &out));
                if !self.violated() {
                    crate::group::observe(self.root.as_mut().unwrap().as_mut());
                }
            }
            Err(p) => {
                poisoned = true;
                let c = classify(p);
                with(|w| {
                    let r = w.node_mut(ROOT);
                    r.in_poll = false;
                    r.last = Some(Res::Panic);
                    // every node is out of its poll now
                    for n in w.nodes.iter_mut() {
                        n.in_poll = false;
                    }
                    w.emit(Ev::PollEnd { node: ROOT, res: Res::Panic, val: None });
                    match c {
                        Caught::Injected => w.emit(Ev::Caught { whence: "root poll: injected child panic unwound" }),
                        Caught::Deadlock => {
                            w.emit(Ev::Caught { whence: "root poll: self-deadlock" });
                            w.flag("c01.deadlock", || "the combinator re-locked its readiness lock while holding it".into());
                        }
                        Caught::Overflow => {
                            w.emit(Ev::Caught { whence: "root poll: endless loop" });
                            let n = crate::leaf::LOG_LIMIT;
                            w.flag_current("livelock", || format!("a poll of the combinator kept polling children without returning (more than {n} events in one run)"));
                        }
                        Caught::Other(m) => {
                            w.emit(Ev::Caught { whence: "root poll: panic" });
                            if PANIC_IS_VIOLATION.contains(&w.prop) {
                                w.flag_current("panic", || format!("poll of the combinator panicked: {m}"));
                            }
                        }
                    }
                });
            }
        }
        if poisoned {
            self.drop_root();
        }
    }

    fn root_poll_end(w: &mut World, out: &Out) {
        let is_group = matches!(w.node(ROOT).fam, Family::FutGroup | Family::StreamGroup);
        let r = w.node_mut(ROOT);
        r.in_poll = false;
        r.last = Some(out.res);
        if out.res.is_final() && !is_group {
            r.done = true;
            w.root_done = true;
        }
        if out.res == Res::Pending {
            w.nontrivial_pending = true;
        }
        w.emit(Ev::PollEnd { node: ROOT, res: out.res, val: None });
        if out.res != Res::Pending {
            w.emit(Ev::RootOut { res: out.res, key: out.key, vals: out.vals.clone() });
        }
        w.frame = w.node(ROOT).frame.clone();
        crate::oracle::on_root_poll_end(w, out);
    }

    fn drop_root(&mut self) {
        if let Some(root) = self.root.take() {
            with(|w| {
                w.root_dropping = true;
                w.emit(Ev::RootDropBegin);
            });
            let r = catch_unwind(AssertUnwindSafe(move || drop(root)));
            let c = r.err().map(classify);
            with(|w| {
                w.root_dropping = false;
                w.root_alive = false;
                w.emit(Ev::RootDropEnd);
                if let Some(Caught::Other(m)) = c {
                    w.flag_current("drop_panic", || format!("dropping the combinator panicked: {m}"));
                }
                crate::oracle::at_root_drop_end(w);
            });
        }
    }

    fn fire_all(&mut self, ctx: FireCtx) {
        let targets: Vec<(NodeId, usize)> = with(|w| {
            let mut t = Vec::new();
            for i in 0..w.nodes.len() as NodeId {
                let n = w.node(i);
                if n.is_leaf() {
                    for j in 0..n.handed.len() {
                        t.push((i, j));
                    }
                }
            }
            match ctx {
                FireCtx::AfterRootDone => w.stats.f_after_done += t.len() as u64,
                _ => w.stats.f_after_drop += t.len() as u64,
            }
            t
        });
        for (n, j) in targets {
            if self.violated() {
                return;
            }
            fire(n, Which::Handed(j), ctx);
        }
    }

    /// C03 / C19 only: poll the root again after its final result (after every stale waker was fired), once or
    /// twice in half of the runs. A panic ("polled after completion") is a legitimate answer; the result is ignored.
    fn afterlife(&mut self) {
        let n = with(|w| {
            let fam = w.node(ROOT).fam;
            if !matches!(w.prop, "C03" | "C19") || matches!(fam, Family::FutGroup | Family::StreamGroup | Family::CoStream) {
                return 0;
            }
            match w.ch.draw("afterlife", 4) {
                0 | 1 => 0,
                2 => 1,
                _ => 2,
            }
        });
        for _ in 0..n {
            let gen = with(|w| {
                w.afterlife = true;
                w.stats.f_afterlife += 1;
                w.emit(Ev::Fault { what: "poll after the final result", arg: 0 });
                w.gen_newest
            });
            let waker = match &self.task_wk {
                Some((g, wk)) if *g == gen => wk.clone(),
                _ => task_waker(gen),
            };
            let mut cx = Context::from_waker(&waker);
            let root = self.root.as_mut().unwrap();
            let r = catch_unwind(AssertUnwindSafe(|| root.poll(&mut cx)));
            let overflow = matches!(r.map_err(classify), Err(Caught::Overflow));
            with(|w| {
                for n in w.nodes.iter_mut() {
                    n.in_poll = false;
                }
                w.afterlife = false;
                if overflow {
                    w.flag_current("livelock", || "a poll after the final result kept polling children without returning".into());
                }
            });
            if self.violated() {
                return;
            }
        }
    }

    fn finish(&mut self) {
        with(|w| {
            w.suppress_faults = true;
            w.stats.steps += self.steps as u64;
        });
        if self.root.is_some() {
            let done = with(|w| w.root_done);
            if done && !self.violated() {
                self.fire_all(FireCtx::AfterRootDone);
            }
            if done && !self.violated() {
                self.afterlife();
            }
            self.drop_root();
        }
        if !self.violated() {
            self.fire_all(FireCtx::AfterRootDrop);
        }
        // release every waker the harness still holds (outside the world borrow)
        let wakers: Vec<Waker> = with(|w| {
            let mut v = Vec::new();
            for n in w.nodes.iter_mut() {
                for (_, wk) in n.handed.drain(..) {
                    v.push(wk);
                }
            }
            v
        });
        drop(wakers);
        self.task_wk = None;
        with(|w| {
            if w.violation.is_none() {
                crate::oracle::at_end(w);
            }
        });
    }
}
