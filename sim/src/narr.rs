//! Abstract log hash (the "distinct interleavings" measure) and human-readable narration.

use crate::world::{Ev, FireCtx, GroupOp, World};

fn h(acc: &mut u64, x: u64) {
    *acc ^= x;
    *acc = acc.wrapping_mul(0x0000_0100_0000_01B3);
    *acc ^= *acc >> 29;
}

/// Hash of the abstract log: event kinds, node indices and results; no value ids, no wids, no times.
pub fn hash(w: &World) -> u64 {
    let mut a: u64 = 0xcbf2_9ce4_8422_2325;
    for ev in &w.log {
        match ev {
            Ev::RootCreated { fam } => h(&mut a, 1 + ((*fam as u64) << 8)),
            Ev::PollBegin { node, .. } => h(&mut a, 2 + ((*node as u64) << 8)),
            Ev::PollEnd { node, res, .. } => h(&mut a, 3 + ((*node as u64) << 8) + ((*res as u64) << 40)),
            Ev::RootOut { res, key, vals } => {
                h(&mut a, 4 + ((*res as u64) << 8) + ((vals.len() as u64) << 16) + ((key.map(|k| k + 1).unwrap_or(0) as u64) << 32))
            }
            Ev::WakerHanded { node, .. } => h(&mut a, 5 + ((*node as u64) << 8)),
            Ev::WakeFired { node, most_recent, ctx, .. } => {
                let c = match ctx {
                    FireCtx::Between => 0u64,
                    FireCtx::InPollOf(n) => 1 + ((*n as u64) << 4),
                    FireCtx::AtLock => 2,
                    FireCtx::AfterRootDone => 3,
                    FireCtx::AfterRootDrop => 4,
                };
                h(&mut a, 6 + ((*node as u64) << 8) + ((*most_recent as u64) << 40) + (c << 41))
            }
            Ev::TaskWake { counted, .. } => h(&mut a, 7 + ((*counted as u64) << 8)),
            Ev::Group(op) => match op {
                GroupOp::Insert { node, key } => h(&mut a, 8 + ((*node as u64) << 8) + ((*key as u64) << 40)),
                GroupOp::Remove { key, ret } => h(&mut a, 9 + ((*key as u64) << 8) + ((*ret as u64) << 40)),
                GroupOp::Reserve { n } => h(&mut a, 10 + ((*n as u64) << 8)),
                GroupOp::Extend { nodes } => h(&mut a, 11 + ((nodes.len() as u64) << 8)),
                GroupOp::Observe { len, .. } => h(&mut a, 12 + ((*len as u64) << 8)),
            },
            Ev::ClosureCalled { which, .. } => h(&mut a, 13 + ((*which as u64) << 8)),
            Ev::WorkCreated { node } => h(&mut a, 14 + ((*node as u64) << 8)),
            Ev::ValCreated { by, .. } => h(&mut a, 15 + ((*by as u64) << 8)),
            Ev::ValReturned { .. } => h(&mut a, 16),
            Ev::ValDropped { .. } => h(&mut a, 17),
            Ev::NodeDropped { node } => h(&mut a, 18 + ((*node as u64) << 8)),
            Ev::RootDropBegin => h(&mut a, 19),
            Ev::RootDropEnd => h(&mut a, 20),
            Ev::Tick { .. } => h(&mut a, 21),
            Ev::Fault { what, arg } => h(&mut a, 22 + ((what.len() as u64) << 8) + ((*arg as u64) << 24)),
            Ev::Caught { whence } => h(&mut a, 23 + ((whence.len() as u64) << 8)),
            Ev::Quiescent => h(&mut a, 24),
        }
    }
    a
}

pub fn narrate(w: &World) -> Vec<String> {
    let mut out = Vec::with_capacity(w.log.len() + w.nodes.len() + 2);
    for (i, n) in w.nodes.iter().enumerate() {
        if n.is_leaf() {
            let k = n.key.map(|k| format!(" key={k}")).unwrap_or_default();
            out.push(format!(
                "node n{i}: leaf {}{} of n{} script={:?} then {:?}{}",
                if n.is_stream { "stream" } else { "future" },
                if n.fallible { " (fallible)" } else { "" },
                n.parent as i64 as i32,
                n.script,
                n.term,
                k
            ));
        } else {
            out.push(format!("node n{i}: {} children={:?}", n.fam.name(), n.children));
        }
    }
    for (i, ev) in w.log.iter().enumerate() {
        let s = match ev {
            Ev::RootCreated { fam } => format!("root created ({})", fam.name()),
            Ev::PollBegin { node, gen } => {
                if *node == 0 {
                    format!("poll root begin (task waker generation {gen})")
                } else {
                    format!("  poll n{node} begin")
                }
            }
            Ev::PollEnd { node, res, val } => {
                let v = val.map(|v| format!(" v{v}")).unwrap_or_default();
                if *node == 0 {
                    format!("poll root end -> {}", res.name())
                } else {
                    format!("  poll n{node} end -> {}{}", res.name(), v)
                }
            }
            Ev::RootOut { res, key, vals } => format!(
                "root returned {} {}{:?}",
                res.name(),
                key.map(|k| format!("key={k} ")).unwrap_or_default(),
                vals
            ),
            Ev::WakerHanded { node, wid } => format!("  n{node} handed waker w{wid}"),
            Ev::WakeFired { node, wid, most_recent, ctx, by_ref } => format!(
                "wake: waker w{wid} of n{node} invoked ({}, {:?}, {})",
                if *most_recent { "most recent" } else { "stale" },
                ctx,
                if *by_ref { "by ref" } else { "by value" }
            ),
            Ev::TaskWake { gen, counted } => {
                format!("    task waker generation {gen} woken ({})", if *counted { "counted" } else { "ignored: not the newest" })
            }
            Ev::Group(op) => format!("group op: {op:?}"),
            Ev::ClosureCalled { which, item } => format!("  closure#{which} called with v{item}"),
            Ev::WorkCreated { node } => format!("  work future n{node} created"),
            Ev::ValCreated { v, by } => format!("    value v{v} created by n{by}"),
            Ev::ValReturned { v } => format!("    value v{v} returned to caller"),
            Ev::ValDropped { v } => format!("    value v{v} dropped"),
            Ev::NodeDropped { node } => format!("    child n{node} dropped"),
            Ev::RootDropBegin => "drop root begin".to_string(),
            Ev::RootDropEnd => "drop root end".to_string(),
            Ev::Tick { t } => format!("virtual time -> {t}"),
            Ev::Fault { what, arg } => format!("FAULT: {what} ({arg})"),
            Ev::Caught { whence } => format!("caught: {whence}"),
            Ev::Quiescent => "quiescent: no event left, no counted wake outstanding, root not consumer-driven".to_string(),
        };
        out.push(format!("{i:4} {s}"));
    }
    if let Some(v) = &w.violation {
        out.push(format!("VIOLATION [{}] at log position {}: {}", v.oracle, v.at, v.msg));
    }
    out
}
