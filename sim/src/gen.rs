//! Scenario generation: everything is drawn from the run's choice stream.

use crate::roots::{supported, Cont, ARRAY_SIZES};
use crate::world::{Family, Knobs, Step, Terminal, Wake, World};

/// `--small`: keep every scenario small (no large containers, marathons, wide bursts or bulk sources); used for the
/// Miri sample, where one execution costs about a second.
pub static SMALL: std::sync::atomic::AtomicBool = std::sync::atomic::AtomicBool::new(false);
pub fn small() -> bool {
    SMALL.load(std::sync::atomic::Ordering::Relaxed)
}

#[derive(Clone, Debug)]
pub struct LeafPlan {
    pub script: Vec<Step>,
    pub term: Terminal,
}

#[derive(Clone, Debug)]
pub enum Shape {
    /// `plain`: the children are handles without drop glue (`PlainFut`), whose drops cannot be observed
    /// `unit`: the children of a future family resolve to a zero-sized output (`Unit`)
    Flat { fam: Family, cont: Cont, n: usize, plain: bool, unit: bool },
    Nested { kind: u32 },
    /// randomly generated tree over type-erased children (dynnest.rs)
    Dyn { tree: crate::dynnest::DT },
    Group { stream: bool, keyed: bool, cap: Option<usize>, ops: u32, from_iter: usize, burst: usize },
    Co { spec: crate::costream::CoSpec },
}

#[derive(Clone, Debug)]
pub struct Plan {
    pub shape: Shape,
    /// leaves of a flat shape in child order (nested/group/co shapes create their own)
    pub leaves: Vec<LeafPlan>,
    /// drop the root once it has been polled this many times (None: never cancel)
    pub cancel_at: Option<u32>,
    /// stop consuming a stream root after this many items
    pub max_yields: u32,
    pub distinguished: Option<u32>,
}

impl Plan {
    pub fn key(&self) -> String {
        match &self.shape {
            Shape::Flat { fam, cont, n, .. } => {
                let b = match *n {
                    0 => "n=0".to_string(),
                    1 => "n=1".to_string(),
                    _ => "n>=2".to_string(),
                };
                format!("{}/{}/{}", fam.name(), cont.name(), b)
            }
            Shape::Nested { kind } => format!("nested/{}", crate::nested::name(*kind)),
            Shape::Dyn { tree } => format!("dyn/{}/depth{}", crate::dynnest::root_family(tree).name(), crate::dynnest::depth(tree)),
            Shape::Group { stream, keyed, .. } => {
                format!("{}/{}", if *stream { "StreamGroup" } else { "FutureGroup" }, if *keyed { "keyed" } else { "plain" })
            }
            Shape::Co { spec } => spec.key(),
        }
    }
    pub fn describe(&self) -> String {
        match &self.shape {
            Shape::Flat { fam, cont, n, plain, unit } => format!(
                "{} over {} of {} children{}",
                fam.name(),
                cont.name(),
                n,
                if *plain && fam.is_stream() {
                    " (zero-sized items)"
                } else if *plain {
                    " (child handles without drop glue)"
                } else if *unit {
                    " (zero-sized outputs)"
                } else {
                    ""
                }
            ),
            Shape::Nested { kind } => format!("nested shape {}", crate::nested::name(*kind)),
            Shape::Dyn { tree } => format!("generated nested shape {}", crate::dynnest::describe(tree)),
            Shape::Group { stream, keyed, cap, ops, from_iter, burst } => format!(
                "{}{} cap={:?} from_iter={} burst={} with {} scheduled operations",
                if *stream { "StreamGroup" } else { "FutureGroup" },
                if *keyed { ".keyed()" } else { "" },
                cap,
                from_iter,
                burst,
                ops
            ),
            Shape::Co { spec } => spec.describe(),
        }
    }
}

/// What a property's workload looks like.
#[derive(Clone, Debug)]
pub struct Profile {
    pub families: &'static [Family],
    pub nested: bool,
    pub groups: bool,
    pub co: bool,
    pub allow_never: bool,
    pub allow_cancel: bool,
    pub allow_panic_step: bool,
    pub faults: bool,
    pub fairness: bool,
    pub big: bool,
}

pub const ALL_FLAT: &[Family] = &[
    Family::Join,
    Family::TryJoin,
    Family::Race,
    Family::RaceOk,
    Family::Merge,
    Family::Zip,
    Family::Chain,
];
/// C02 / C03 also speak about the children of `wait_until` (inner future / stream and deadline)
pub const ALL_FLAT_W: &[Family] = &[
    Family::Join,
    Family::TryJoin,
    Family::Race,
    Family::RaceOk,
    Family::Merge,
    Family::Zip,
    Family::Chain,
    Family::WaitUntilF,
    Family::WaitUntilS,
];
pub const SELECTIVE: &[Family] = &[Family::Join, Family::TryJoin, Family::Merge, Family::Zip];
pub const CONCURRENT: &[Family] =
    &[Family::Join, Family::TryJoin, Family::Race, Family::RaceOk, Family::Merge, Family::Zip];

pub fn profile(prop: &str) -> Profile {
    let base = Profile {
        families: ALL_FLAT,
        nested: false,
        groups: false,
        co: false,
        allow_never: true,
        allow_cancel: false,
        allow_panic_step: false,
        faults: true,
        fairness: false,
        big: true,
    };
    let base = Profile { big: base.big && !small(), ..base };
    match prop {
        "C01" => Profile { nested: true, groups: true, ..base },
        "C02" => Profile { families: ALL_FLAT_W, nested: true, groups: true, co: true, allow_cancel: true, ..base },
        "C03" => Profile { families: ALL_FLAT_W, nested: true, groups: true, co: true, allow_cancel: true, ..base },
        "C20" => Profile { families: CONCURRENT, nested: true, groups: true, ..base },
        "C16" => Profile { families: SELECTIVE, nested: true, groups: true, ..base },
        "C04" => Profile { families: &[Family::Join], nested: true, ..base },
        "C05" => Profile { families: &[Family::TryJoin], nested: true, ..base },
        "C06" => Profile { families: &[Family::Race], nested: true, ..base },
        "C07" => Profile { families: &[Family::RaceOk], nested: true, ..base },
        "C08" => Profile { families: &[Family::Merge], nested: true, ..base },
        "C09" => Profile { families: &[Family::Zip], nested: true, allow_cancel: true, ..base },
        "C10" => Profile { families: &[Family::Chain], nested: true, ..base },
        "C17" => Profile { families: &[Family::Merge], fairness: true, ..base },
        "C19" => Profile { families: &[Family::WaitUntilF, Family::WaitUntilS], nested: true, ..base },
        "C11" => Profile { families: &[], groups: true, allow_cancel: true, ..base },
        "C12" => Profile { families: &[], groups: true, allow_cancel: true, ..base },
        "C13" | "C14" | "C15" => Profile { families: &[], co: true, allow_cancel: true, ..base },
        _ => base,
    }
}

pub fn knobs(w: &mut World, faults: bool) -> Knobs {
    let c = &mut w.ch;
    if !faults {
        return Knobs { p_eager_poll: 8, ..Knobs::default() };
    }
    // swarm: each fault kind is enabled in roughly half of the runs, at a drawn rate
    let mut rate = |label: &'static str, max: u32| -> u32 {
        if c.draw(label, 2) == 0 {
            0
        } else {
            1 + c.draw(label, max)
        }
    };
    let p_spurious = rate("knob.spurious", 6);
    let p_stale = rate("knob.stale", 4);
    let p_dup = rate("knob.dup", 4);
    let p_inpoll = rate("knob.inpoll", 8);
    let p_lock = rate("knob.lock", 6);
    let p_same_waker = rate("knob.same_waker", 10);
    let p_by_value = rate("knob.by_value", 8);
    let p_drop_wake = rate("knob.dropwake", 4);
    let p_eager_poll = c.draw("knob.eager", 15) + 1;
    Knobs {
        p_spurious,
        p_stale,
        p_dup,
        p_inpoll,
        p_lock,
        p_same_waker,
        p_by_value,
        p_eager_poll,
        p_drop_wake,
        spurious_budget: 6,
        stale_budget: 6,
    }
}

fn wake_mode(w: &mut World, allow_nowake: bool) -> Wake {
    match w.ch.draw("leaf.wake", 10) {
        0..=5 => Wake::Later(w.ch.draw("leaf.delay", 4)),
        6..=8 => Wake::SelfNow,
        _ => {
            if allow_nowake {
                Wake::NoWake
            } else {
                Wake::Later(0)
            }
        }
    }
}

pub fn fut_script(w: &mut World, fallible: bool, p: &Profile, short: bool, err_bias: u32) -> LeafPlan {
    let mut script = Vec::new();
    let pends = if short { w.ch.draw("leaf.pends", 2) } else { w.ch.draw("leaf.pends", 4) };
    for _ in 0..pends {
        let m = wake_mode(w, p.allow_never);
        script.push(Step::Pend(m));
    }
    let never = p.allow_never && w.ch.draw("leaf.never", 8) == 7;
    if never {
        return LeafPlan { script, term: Terminal::Never };
    }
    if p.allow_panic_step && w.ch.draw("leaf.panic", 12) == 11 {
        script.push(Step::Panic);
        return LeafPlan { script, term: Terminal::Finished };
    }
    let err = fallible && w.ch.draw("leaf.err", 8) < err_bias;
    script.push(Step::Ready { err });
    LeafPlan { script, term: Terminal::Finished }
}

pub fn stream_script(w: &mut World, p: &Profile, short: bool) -> LeafPlan {
    let mut script = Vec::new();
    let steps = if short { w.ch.draw("leaf.steps", 3) } else { w.ch.draw("leaf.steps", 7) };
    for _ in 0..steps {
        if w.ch.draw("leaf.kind", 5) < 3 {
            script.push(Step::Item);
        } else {
            let m = wake_mode(w, p.allow_never);
            script.push(Step::Pend(m));
        }
    }
    let never = p.allow_never && w.ch.draw("leaf.never", 8) == 7;
    if never {
        return LeafPlan { script, term: Terminal::Never };
    }
    if p.allow_panic_step && w.ch.draw("leaf.panic", 12) == 11 {
        script.push(Step::Panic);
        return LeafPlan { script, term: Terminal::Finished };
    }
    script.push(Step::End);
    LeafPlan { script, term: Terminal::Finished }
}

pub fn fallible(fam: Family) -> bool {
    matches!(fam, Family::TryJoin | Family::RaceOk)
}

fn pick_n(w: &mut World, fam: Family, cont: Cont, big: bool) -> usize {
    let n = match cont {
        Cont::Ext2 => 2,
        Cont::Tuple => w.ch.draw("n.tuple", 13) as usize,
        Cont::Array => {
            let lim = if big { ARRAY_SIZES.len() } else { 7 };
            // bias towards small arrays: two draws, take the smaller index
            let a = w.ch.draw("n.array", lim as u32) as usize;
            let b = w.ch.draw("n.array2", lim as u32 + 3) as usize;
            ARRAY_SIZES[a.min(b).min(lim - 1)]
        }
        Cont::Vec => match w.ch.draw("n.vec.class", if big { 20 } else { 14 }) {
            0..=13 => w.ch.draw("n.vec", 7) as usize,
            14..=17 => 7 + w.ch.draw("n.vec", 18) as usize,
            _ => {
                // one large-Vec run in three hundred is huge (a 16-bit length or index field truncates at 65 536)
                // (future families only: a stream combinator scans its inputs on every one of the tens of thousands of
                // polls such a run would need)
                if !small() && w.prop != "C02" && !fam.is_stream() && w.ch.draw("n.vec.huge", 300) == 299 {
                    [65_536, 65_537][w.ch.draw("n.vec.hugen", 2) as usize]
                } else {
                    [22, 23, 24, 31, 32, 33, 62, 63, 64, 65, 66, 93, 100, 127, 128, 129, 200, 255, 256, 257][w.ch.draw("n.vec.big", 20) as usize]
                }
            }
        },
    };
    if supported(fam, cont, n) {
        return n;
    }
    // unsupported size (e.g. racing zero futures is outside the properties): smallest supported one.
    // No redraw loop: a replayed/shrunk trace may be exhausted and yield zeros forever.
    (0..=2).find(|&m| supported(fam, cont, m)).unwrap_or(2)
}

pub fn flat(w: &mut World, p: &Profile) -> Plan {
    let fam = p.families[w.ch.draw("fam", p.families.len() as u32) as usize];
    if matches!(fam, Family::WaitUntilF | Family::WaitUntilS) {
        let mut inner = if fam == Family::WaitUntilF { fut_script(w, false, p, false, 0) } else { stream_script(w, p, false) };
        let mut deadline = fut_script(w, false, p, false, 0);
        // one stream run in twenty: the inner stream is endless and consumed for a few hundred items
        if fam == Family::WaitUntilS && !small() && w.ch.draw("wait.long", 20) == 19 {
            inner = LeafPlan { script: Vec::new(), term: Terminal::Forever };
            return Plan {
                shape: Shape::Flat { fam, cont: Cont::Tuple, n: 2, plain: false, unit: false },
                leaves: vec![inner, deadline],
                cancel_at: None,
                max_yields: 260 + w.ch.draw("wait.long.len", 80),
                distinguished: None,
            };
        }
        // one run in twenty: the deadline stays Pending for a few hundred self-woken polls
        if !small() && w.ch.draw("wait.marathon", 20) == 19 {
            let len = 260 + w.ch.draw("wait.marathon.len", 60);
            let mut script: Vec<Step> = (0..len).map(|i| Step::Pend(if i % 3 == 2 { Wake::Later(0) } else { Wake::SelfNow })).collect();
            script.push(Step::Ready { err: false });
            deadline = LeafPlan { script, term: Terminal::Finished };
            return Plan {
                shape: Shape::Flat { fam, cont: Cont::Tuple, n: 2, plain: false, unit: false },
                leaves: vec![inner, deadline],
                cancel_at: None,
                max_yields: len + 1_000_000,
                distinguished: None,
            };
        }
        // one run in four: `x.wait_until(d1).wait_until(d2)` written as a method chain on the concrete type
        // (leaves = [inner, d1, d2]); d1 must stay untouched until d2 resolved, the inner until both did
        if w.ch.draw("wait.chained", 4) == 3 {
            let d2 = fut_script(w, false, p, false, 0);
            return Plan {
                shape: Shape::Flat { fam, cont: Cont::Tuple, n: 3, plain: false, unit: false },
                leaves: vec![inner, deadline, d2],
                cancel_at: None,
                max_yields: u32::MAX,
                distinguished: None,
            };
        }
        return Plan {
            shape: Shape::Flat { fam, cont: Cont::Tuple, n: 2, plain: false, unit: false },
            leaves: vec![inner, deadline],
            cancel_at: None,
            max_yields: u32::MAX,
            distinguished: None,
        };
    }
    let mut conts = vec![Cont::Tuple, Cont::Array];
    if !cfg!(feature = "cfg-nostd") {
        conts.push(Cont::Vec);
    }
    if !fallible(fam) {
        conts.push(Cont::Ext2);
    }
    let cont = conts[w.ch.draw("cont", conts.len() as u32) as usize];
    let mut n = pick_n(w, fam, cont, p.big);
    if p.fairness && n == 0 {
        // C17 is stated for N >= 1 inputs
        n = if cont == Cont::Array { 1 } else { 1 + w.ch.draw("n.fair", 6) as usize };
    }
    let short = n > 8;
    let err_bias = w.ch.draw("err.bias", 5) + 1;
    // large containers: in half of the runs readiness is *sparse* — every child starts with one or more
    // Pending steps except one or two drawn positions (otherwise "the first k children in scan order are all
    // pending" has probability 2^-k and budget / block-boundary effects beyond a few dozen children are never reached)
    // ... and in a quarter they are *dense*: every child resolves (or every stream is an empty / one-item stream) on its
    // first poll except zero to two drawn positions — whole batches of 32 / 64 / 128 children finish in one poll; for
    // fallible families all Ok, all Err, or mixed. Huge containers (65 536 children) are always dense.
    let mode = if n > 60_000 {
        2
    } else if n > 6 {
        w.ch.draw("big.mode", 4)
    } else {
        0
    };
    let sparse = mode == 1 || mode == 3;
    let dense = mode == 2;
    let dense_outcome = if dense { w.ch.draw("dense.outcome", 3) } else { 0 };
    // dense streams: one in `dense_items` inputs has an item, the others are empty (long runs of inputs ending in one poll)
    let dense_items = if dense { [3, 16, 1000][w.ch.draw("dense.items", 3) as usize] } else { 3 };
    let mut leaves = Vec::with_capacity(n);
    for _ in 0..n {
        let lp = if dense {
            if fam.is_stream() {
                let script = if w.ch.draw("dense.item", dense_items) == 0 { vec![Step::Item, Step::End] } else { vec![Step::End] };
                LeafPlan { script, term: Terminal::Finished }
            } else {
                let err = fallible(fam)
                    && match dense_outcome {
                        0 => false,
                        1 => true,
                        _ => w.ch.draw("dense.err", 8) == 0,
                    };
                LeafPlan { script: vec![Step::Ready { err }], term: Terminal::Finished }
            }
        } else {
            let mut lp = if fam.is_stream() { stream_script(w, p, short) } else { fut_script(w, fallible(fam), p, short, err_bias) };
            if sparse {
                let k = 1 + w.ch.draw("sparse.pends", 2);
                for _ in 0..k {
                    let m = wake_mode(w, p.allow_never);
                    lp.script.insert(0, Step::Pend(m));
                }
            }
            lp
        };
        leaves.push(lp);
    }
    if sparse {
        for _ in 0..1 + w.ch.draw("sparse.ready", 2) {
            let i = w.ch.draw("sparse.pos", n as u32) as usize;
            while matches!(leaves[i].script.first(), Some(Step::Pend(_))) {
                leaves[i].script.remove(0);
            }
            if leaves[i].script.is_empty() && leaves[i].term == Terminal::Never {
                leaves[i] = if fam.is_stream() {
                    LeafPlan { script: vec![Step::Item, Step::End], term: Terminal::Finished }
                } else {
                    LeafPlan { script: vec![Step::Ready { err: false }], term: Terminal::Finished }
                };
            }
        }
    }
    if dense {
        // zero to two children are not immediately done: they pend once or twice first (a slow success among failures,
        // a late item behind a run of empty streams)
        for _ in 0..w.ch.draw("dense.slow", 3) {
            let i = w.ch.draw("dense.pos", n as u32) as usize;
            let m = wake_mode(w, false);
            leaves[i].script.insert(0, Step::Pend(m));
            if fam.is_stream() {
                leaves[i].script.insert(1, Step::Item);
            } else if fallible(fam) {
                let last = leaves[i].script.len() - 1;
                leaves[i].script[last] = Step::Ready { err: false };
            }
        }
    }
    let mut distinguished = None;
    let mut max_yields = u32::MAX;
    // marathon (one run in sixteen): something that only goes wrong after a few hundred polls (a narrow counter,
    // a rotation that wraps) needs one long-lived child — a future that stays Pending for 260..330 self-woken polls,
    // or one or two endless streams consumed for that many items
    // (not for C02: every scenario is re-executed once per crash point, which a marathon multiplies by hundreds)
    if !p.fairness && w.prop != "C02" && !small() && n >= 1 && n <= 12 && w.ch.draw("marathon", 16) == 15 {
        let len = 260 + w.ch.draw("marathon.len", 70);
        let who = w.ch.draw("marathon.pos", n as u32) as usize;
        if fam.is_stream() {
            leaves[who] = LeafPlan { script: Vec::new(), term: Terminal::Forever };
            if n >= 2 && w.ch.draw("marathon.two", 2) == 1 {
                let other = w.ch.draw("marathon.pos2", n as u32) as usize;
                leaves[other] = LeafPlan { script: Vec::new(), term: Terminal::Forever };
            }
            max_yields = len;
        } else {
            let mut script = Vec::with_capacity(len as usize + 1);
            for i in 0..len {
                script.push(Step::Pend(if i % 3 == 2 { Wake::Later(0) } else { Wake::SelfNow }));
            }
            script.push(Step::Ready { err: false });
            leaves[who] = LeafPlan { script, term: Terminal::Finished };
            max_yields = len + 1_000_000; // marks the run for a larger step cap (futures never yield)
        }
    }
    if p.fairness && n >= 1 {
        let d = w.ch.draw("fair.pos", n as u32);
        leaves[d as usize] = LeafPlan { script: Vec::new(), term: Terminal::Forever };
        // some other inputs are always ready as well
        for (i, l) in leaves.iter_mut().enumerate() {
            if i as u32 != d && w.ch.draw("fair.other", 4) == 0 {
                *l = LeafPlan { script: Vec::new(), term: Terminal::Forever };
            }
        }
        distinguished = Some(d);
        // mostly short runs; one run in twelve is consumed for more than two full turns of any 8-bit
        // rotation counter (a scan offset kept in a narrow integer wraps only after 256 polls)
        max_yields = if w.ch.draw("fair.long", 12) == 11 { 530 } else { (3 * n as u32 + 4).min(80) };
        // ... and one in three thousand for more than 2^16 yields (a 16-bit rotation counter)
        if !small() && n <= 12 && w.ch.draw("fair.ultra", 3000) == 2999 {
            max_yields = 66_100;
        }
    }
    let cancel_at = if p.allow_cancel && w.ch.draw("cancel", 4) == 3 { Some(w.ch.draw("cancel.at", 6)) } else { None };
    // one future-family run in eight hands the combinator children *without drop glue* (a destructor that is gated
    // on `mem::needs_drop::<Fut>()` behaves differently for them); their outputs are still tracked values
    // (for merge / zip / chain the same flag selects streams of *zero-sized items*)
    let plain = (!fam.is_stream() || matches!(fam, Family::Merge | Family::Zip | Family::Chain) && !p.fairness)
        && cont != Cont::Ext2
        && n <= 12
        && w.ch.draw("leaf.plain", 8) == 7;
    // ... and one future-family run in eight (when not `plain`) has children with a zero-sized output type
    let unit = !plain && !fam.is_stream() && cont != Cont::Ext2 && n <= 12 && w.ch.draw("leaf.unit", 8) == 7;
    Plan { shape: Shape::Flat { fam, cont, n, plain, unit }, leaves, cancel_at, max_yields, distinguished }
}

pub fn plan(w: &mut World, prop: &str) -> Plan {
    let p = profile(prop);
    // which kind of shape
    let mut kinds: Vec<u32> = Vec::new();
    if !p.families.is_empty() {
        kinds.extend([0, 0, 0]);
    }
    if p.nested {
        kinds.push(1);
        kinds.push(4);
    }
    if p.groups && !cfg!(feature = "cfg-nostd") {
        kinds.push(2);
        if p.families.is_empty() {
            kinds.push(2);
        }
    }
    if p.co && !cfg!(feature = "cfg-nostd") {
        kinds.push(3);
    }
    let kind = kinds[w.ch.draw("shape.kind", kinds.len() as u32) as usize];
    match kind {
        0 => flat(w, &p),
        1 => crate::nested::plan(w, &p),
        2 => crate::group::plan(w, &p, prop),
        4 => crate::dynnest::plan(w, &p),
        _ => crate::costream::plan(w, &p, prop),
    }
}
