//! no_std configuration: the groups do not exist (they need `alloc`).
use crate::gen::{Plan, Profile};
use crate::leaf::Out;
use crate::roots::Root;
use crate::world::World;

#[derive(Default)]
pub struct GroupModel {
    pub active: bool,
}
pub fn on_root_poll_begin(_w: &mut World) {}
pub fn on_root_poll_end(_w: &mut World, _out: &Out) {}
pub fn observe(_root: &mut dyn Root) {}
pub fn plan(w: &mut World, p: &Profile, _prop: &str) -> Plan {
    crate::gen::flat(w, p)
}
pub fn build(_plan: &Plan) -> Box<dyn Root> {
    unreachable!("groups are not generated in the no_std configuration")
}
pub fn op_enabled(_plan: &Plan) -> bool {
    false
}
pub fn do_op(_plan: &mut Plan, _root: &mut dyn Root) {}
pub fn planned_ops(_plan: &Plan) -> u32 {
    0
}
