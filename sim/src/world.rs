//! The simulated world of one run: node tree (root, inner combinators, scripted
//! leaves), value table, event log, executor state. Lives in a thread-local so
//! that handles held by the code under test are plain integers.

use crate::choice::Choices;
use std::cell::RefCell;
use std::task::Waker;

pub type NodeId = u32;
pub const ROOT: NodeId = 0;
pub const NO_NODE: NodeId = u32::MAX;

#[derive(Clone, Copy, PartialEq, Eq, Debug)]
pub enum Res {
    Pending,
    Ready,
    Ok,
    Err,
    Some,
    None,
    Panic,
}

impl Res {
    pub fn is_final(self) -> bool {
        matches!(self, Res::Ready | Res::Ok | Res::Err | Res::None)
    }
    pub fn name(self) -> &'static str {
        match self {
            Res::Pending => "Pending",
            Res::Ready => "Ready",
            Res::Ok => "Ready(Ok)",
            Res::Err => "Ready(Err)",
            Res::Some => "Some",
            Res::None => "None",
            Res::Panic => "PANIC",
        }
    }
}

#[derive(Clone, Copy, PartialEq, Eq, Debug)]
pub enum Family {
    Leaf,
    Join,
    TryJoin,
    Race,
    RaceOk,
    Merge,
    Zip,
    Chain,
    FutGroup,
    StreamGroup,
    WaitUntilF,
    WaitUntilS,
    CoStream,
}

impl Family {
    pub fn name(self) -> &'static str {
        match self {
            Family::Leaf => "leaf",
            Family::Join => "join",
            Family::TryJoin => "try_join",
            Family::Race => "race",
            Family::RaceOk => "race_ok",
            Family::Merge => "merge",
            Family::Zip => "zip",
            Family::Chain => "chain",
            Family::FutGroup => "FutureGroup",
            Family::StreamGroup => "StreamGroup",
            Family::WaitUntilF => "wait_until(fut)",
            Family::WaitUntilS => "wait_until(stream)",
            Family::CoStream => "co_stream",
        }
    }
    pub fn is_stream(self) -> bool {
        matches!(
            self,
            Family::Merge
                | Family::Zip
                | Family::Chain
                | Family::FutGroup
                | Family::StreamGroup
                | Family::WaitUntilS
        )
    }
}

#[derive(Clone, Copy, PartialEq, Eq, Debug)]
pub enum Wake {
    /// schedule a readiness event `d` ticks from now
    Later(u32),
    /// invoke the waker inside this very poll
    SelfNow,
    /// return Pending without arranging any wake-up
    NoWake,
}

#[derive(Clone, Copy, PartialEq, Eq, Debug)]
pub enum Step {
    Pend(Wake),
    /// future completes (`err` selects Err for fallible leaves)
    Ready { err: bool },
    Item,
    End,
    Panic,
}

#[derive(Clone, Copy, PartialEq, Eq, Debug)]
pub enum Terminal {
    /// the script ended with Ready/End (or a panic)
    Finished,
    /// after the script: Pending forever, never wakes ("stalled node")
    Never,
    /// after the script: an item on every poll (infinite stream)
    Forever,
}

#[derive(Clone, Copy, PartialEq, Eq, Debug)]
pub enum FireCtx {
    Between,
    InPollOf(NodeId),
    AtLock,
    AfterRootDone,
    AfterRootDrop,
}

#[derive(Clone, Debug)]
pub enum GroupOp {
    Insert { node: NodeId, key: usize },
    Remove { key: usize, ret: bool },
    Reserve { n: usize },
    Extend { nodes: Vec<NodeId> },
    Observe { len: usize, is_empty: bool, cap: usize },
}

#[derive(Clone, Debug)]
pub enum Ev {
    RootCreated { fam: Family },
    PollBegin { node: NodeId, gen: u32 },
    PollEnd { node: NodeId, res: Res, val: Option<u32> },
    RootOut { res: Res, key: Option<usize>, vals: Vec<u32> },
    WakerHanded { node: NodeId, wid: u32 },
    WakeFired { node: NodeId, wid: u32, most_recent: bool, ctx: FireCtx, by_ref: bool },
    TaskWake { gen: u32, counted: bool },
    Group(GroupOp),
    ClosureCalled { which: u8, item: u32 },
    WorkCreated { node: NodeId },
    ValCreated { v: u32, by: NodeId },
    ValReturned { v: u32 },
    ValDropped { v: u32 },
    NodeDropped { node: NodeId },
    RootDropBegin,
    RootDropEnd,
    Tick { t: u64 },
    Fault { what: &'static str, arg: u32 },
    Caught { whence: &'static str },
    Quiescent,
}

#[derive(Clone, Debug)]
pub struct Violation {
    pub oracle: &'static str,
    pub msg: String,
    pub at: usize,
}

pub struct Node {
    pub parent: NodeId,
    pub fam: Family,
    pub children: Vec<NodeId>,
    pub key: Option<usize>,
    pub fallible: bool,
    // ---- tracking ----
    pub polls: u32,
    pub last: Option<Res>,
    pub in_poll: bool,
    pub done: bool,
    pub dropped: u8,
    pub removed: bool,
    pub cur_wid: u32,
    pub fired_cur: bool,
    pub fired_any: bool,
    /// woke itself inside its most recent poll (reach probe)
    pub self_woke: bool,
    /// F14: when this leaf is dropped it invokes the most recent waker of the sibling at this (wrapped) position
    pub drop_wake: Option<u32>,
    /// the handle given to the code under test has no drop glue: its drops cannot be observed
    pub untracked_drop: bool,
    /// zip: item buffered for the current row
    pub buffered: Option<u32>,
    /// values this node produced, in order
    pub produced: Vec<u32>,
    /// value carried by the node's final result (Ready / Ok / Err), if any
    pub final_val: Option<u32>,
    pub handed: Vec<(u32, Waker)>,
    pub pending_events: u32,
    /// PollEnd records of this node's direct children during its current / most recent poll
    pub frame: Vec<(NodeId, Res, Option<u32>)>,
    // ---- leaf script ----
    pub script: Vec<Step>,
    pub pos: usize,
    pub term: Terminal,
    pub is_stream: bool,
    /// value held by a work future (co-stream): dropped when it completes/drops
    pub live: bool,
}

impl Node {
    fn new(parent: NodeId, fam: Family) -> Node {
        Node {
            parent,
            fam,
            children: Vec::new(),
            key: None,
            fallible: false,
            polls: 0,
            last: None,
            in_poll: false,
            done: false,
            dropped: 0,
            removed: false,
            cur_wid: 0,
            fired_cur: false,
            fired_any: false,
            self_woke: false,
            drop_wake: None,
            untracked_drop: false,
            buffered: None,
            produced: Vec::new(),
            final_val: None,
            handed: Vec::new(),
            pending_events: 0,
            frame: Vec::new(),
            script: Vec::new(),
            pos: 0,
            term: Terminal::Finished,
            is_stream: false,
            live: true,
        }
    }
    pub fn parked(&self) -> bool {
        self.last == Some(Res::Pending) && !self.in_poll && !self.done && self.dropped == 0
    }
    pub fn is_leaf(&self) -> bool {
        self.fam == Family::Leaf
    }
}

#[derive(Clone, Copy, PartialEq, Eq, Debug)]
pub enum ValState {
    Live,
    Returned,
    Dropped,
}

pub struct ValInfo {
    pub by: NodeId,
    pub state: ValState,
    pub returned: u8,
    pub dropped: u8,
    pub parts: Vec<u32>,
    pub absorbed: bool,
    /// virtual value of a zero-sized item: never returned, never dropped
    pub untracked: bool,
}

#[derive(Clone, Copy, Debug)]
pub struct PendingWake {
    pub node: NodeId,
    pub due: u64,
}

/// Per-run fault/scheduling rates ("swarm" knobs), out of 16 unless stated.
#[derive(Clone, Debug, Default)]
pub struct Knobs {
    pub p_spurious: u32,
    pub p_stale: u32,
    pub p_dup: u32,
    pub p_inpoll: u32,
    pub p_lock: u32,
    pub p_same_waker: u32,
    pub p_by_value: u32,
    pub p_eager_poll: u32,
    /// a leaf fires a waker (its own or a sibling's) from its destructor (F14), out of 16
    pub p_drop_wake: u32,
    pub spurious_budget: u32,
    pub stale_budget: u32,
}

#[derive(Default, Clone, Debug)]
pub struct Stats {
    pub f_spurious: u64,
    pub f_new_waker: u64,
    pub f_same_waker: u64,
    pub f_stale: u64,
    pub f_dup: u64,
    pub f_inpoll: u64,
    pub f_selfnow: u64,
    pub f_lock: u64,
    pub f_after_done: u64,
    pub f_after_drop: u64,
    pub f_cancel: u64,
    pub f_panic: u64,
    pub f_never: u64,
    pub f_slot_reuse: u64,
    pub f_growth: u64,
    pub f_delayed: u64,
    pub f_drop_wake: u64,
    pub f_afterlife: u64,
    pub p_repoll_after_selfwake: u64,
    pub p_bit_already_set: u64,
    pub p_zip_late_row: u64,
    pub p_multi_end: u64,
    pub p_multi_end_gt10: u64,
    pub p_backpressure: u64,
    pub p_err_in_flush: u64,
    pub p_err_saturated: u64,
    pub p_err_in_progress: u64,
    /// a single poll of a concurrent-stream operation in which 64 or more work futures completed
    pub p_bulk_frame64: u64,
    pub p_big_len: u64,
    pub p_remove_live: u64,
    pub p_refill: u64,
    /// how often each family of oracle rules was actually evaluated
    pub o_lr_frames: u64,
    pub o_cp1: u64,
    pub o_cp2: u64,
    pub o_quiescence: u64,
    pub o_c16: u64,
    pub o_c20: u64,
    pub o_group_view: u64,
    pub o_co_final: u64,
    pub o_drop_accounting: u64,
    pub root_polls: u64,
    pub child_polls: u64,
    pub wakes: u64,
    pub group_ops: u64,
    pub vtime: u64,
    pub steps: u64,
}

impl Stats {
    pub fn add(&mut self, o: &Stats) {
        macro_rules! acc { ($($f:ident),*) => { $( self.$f += o.$f; )* } }
        acc!(
            f_spurious, f_new_waker, f_same_waker, f_stale, f_dup, f_inpoll, f_selfnow, f_lock,
            f_after_done, f_after_drop, f_cancel, f_panic, f_never, f_slot_reuse, f_growth,
            f_delayed, f_drop_wake, f_afterlife, p_repoll_after_selfwake, p_bit_already_set, p_zip_late_row, p_multi_end, p_multi_end_gt10,
            p_backpressure, p_err_in_flush, p_err_saturated, p_err_in_progress, p_bulk_frame64, p_big_len, p_remove_live, p_refill, o_lr_frames, o_cp1, o_cp2, o_quiescence, o_c16, o_c20, o_group_view,
            o_co_final, o_drop_accounting, root_polls,
            child_polls, wakes, group_ops, vtime, steps
        );
    }
    pub fn fields(&self) -> Vec<(&'static str, u64)> {
        macro_rules! lst { ($($f:ident),*) => { vec![ $( (stringify!($f), self.$f), )* ] } }
        lst!(
            f_spurious, f_new_waker, f_same_waker, f_stale, f_dup, f_inpoll, f_selfnow, f_lock,
            f_after_done, f_after_drop, f_cancel, f_panic, f_never, f_slot_reuse, f_growth,
            f_delayed, f_drop_wake, f_afterlife, p_repoll_after_selfwake, p_bit_already_set, p_zip_late_row, p_multi_end, p_multi_end_gt10,
            p_backpressure, p_err_in_flush, p_err_saturated, p_err_in_progress, p_bulk_frame64, p_big_len, p_remove_live, p_refill, o_lr_frames, o_cp1, o_cp2, o_quiescence, o_c16, o_c20, o_group_view,
            o_co_final, o_drop_accounting, root_polls,
            child_polls, wakes, group_ops, vtime, steps
        )
    }
}

pub struct World {
    pub ch: Choices,
    pub prop: &'static str,
    pub prefix: String,
    pub std_cfg: bool,
    pub log: Vec<Ev>,
    pub nodes: Vec<Node>,
    pub vals: Vec<ValInfo>,
    pub violation: Option<Violation>,
    pub harness_error: Option<String>,
    pub knobs: Knobs,
    pub stats: Stats,
    // executor state
    pub gen_newest: u32,
    pub woken: bool,
    pub events: Vec<PendingWake>,
    pub now: u64,
    pub root_alive: bool,
    pub root_done: bool,
    pub root_dropping: bool,
    pub in_group_op: bool,
    pub group_op_since_poll: bool,
    pub next_wid: u32,
    pub in_fire: u32,
    pub suppress_faults: bool,
    /// the root has produced its final result and the harness polls it again (C03 / C19 only)
    pub afterlife: bool,
    /// PollEnd records of direct children of the root during the current root frame
    pub frame: Vec<(NodeId, Res, Option<u32>)>,
    /// child poll counter (for fault enumeration) and the poll at which to panic
    pub child_poll_counter: u32,
    pub panic_at_child_poll: u32,
    /// per-run event budget (raised for deliberately long or huge runs)
    pub log_limit: usize,
    pub closure_call_counter: u32,
    pub panic_at_closure_call: u32,
    pub nontrivial_pending: bool,
    pub nontrivial_wake: bool,
    // family specific model state lives here too
    pub model: crate::oracle::Model,
}

thread_local! {
    static WORLD: RefCell<Option<Box<World>>> = const { RefCell::new(None) };
}

/// Run `f` with the world of the current thread. Never call code under test
/// (wakers, polls, drops of combinators) from inside `f`.
#[inline]
pub fn with<R>(f: impl FnOnce(&mut World) -> R) -> R {
    WORLD.with(|w| {
        let mut b = match w.try_borrow_mut() {
            Ok(b) => b,
            Err(_) => {
                // Re-entrancy is a harness bug; do not panic inside Drop paths.
                eprintln!("HARNESS-ERROR: world re-entered");
                std::process::exit(2);
            }
        };
        let world = b.as_mut().expect("world not installed");
        f(world)
    })
}

pub fn has_world() -> bool {
    WORLD.with(|w| w.try_borrow().map(|b| b.is_some()).unwrap_or(true))
}

pub fn install(w: Box<World>) {
    WORLD.with(|c| *c.borrow_mut() = Some(w));
}

pub fn uninstall() -> Box<World> {
    WORLD.with(|c| c.borrow_mut().take().expect("no world"))
}

impl World {
    pub fn new(ch: Choices, prop: &'static str, std_cfg: bool) -> Box<World> {
        Box::new(World {
            ch,
            prop,
            prefix: format!("{}.", prop.to_ascii_lowercase()),
            std_cfg,
            log: Vec::with_capacity(256),
            nodes: Vec::with_capacity(16),
            vals: Vec::with_capacity(32),
            violation: None,
            harness_error: None,
            knobs: Knobs::default(),
            stats: Stats::default(),
            gen_newest: 0,
            woken: false,
            events: Vec::new(),
            now: 0,
            root_alive: false,
            root_done: false,
            root_dropping: false,
            in_group_op: false,
            group_op_since_poll: false,
            next_wid: 1,
            in_fire: 0,
            suppress_faults: false,
            afterlife: false,
            frame: Vec::new(),
            child_poll_counter: 0,
            panic_at_child_poll: 0,
            log_limit: 0,
            closure_call_counter: 0,
            panic_at_closure_call: 0,
            nontrivial_pending: false,
            nontrivial_wake: false,
            model: crate::oracle::Model::default(),
        })
    }

    #[inline]
    pub fn emit(&mut self, ev: Ev) {
        self.log.push(ev);
    }

    /// Record a violation if `oracle` belongs to the property under check.
    /// Only the first violation of a run is kept.
    pub fn flag(&mut self, oracle: &'static str, msg: impl FnOnce() -> String) {
        if self.violation.is_none() && oracle.starts_with(self.prefix.as_str()) {
            self.violation = Some(Violation { oracle, msg: msg(), at: self.log.len() });
        }
    }
    /// Flag under the current property whatever it is (used for panics in polls
    /// by the properties that treat a panic as "did not produce the stated result").
    pub fn flag_current(&mut self, suffix: &'static str, msg: impl FnOnce() -> String) {
        if self.violation.is_none() {
            let oracle: &'static str = crate::oracle::oracle_id(self.prop, suffix);
            self.violation = Some(Violation { oracle, msg: msg(), at: self.log.len() });
        }
    }

    pub fn new_node(&mut self, parent: NodeId, fam: Family) -> NodeId {
        let id = self.nodes.len() as NodeId;
        self.nodes.push(Node::new(parent, fam));
        if parent != NO_NODE {
            self.nodes[parent as usize].children.push(id);
        }
        id
    }

    pub fn new_leaf(
        &mut self,
        parent: NodeId,
        script: Vec<Step>,
        term: Terminal,
        is_stream: bool,
        fallible: bool,
    ) -> NodeId {
        let id = self.new_node(parent, Family::Leaf);
        let n = &mut self.nodes[id as usize];
        n.script = script;
        n.term = term;
        n.is_stream = is_stream;
        n.fallible = fallible;
        if term == Terminal::Never {
            self.stats.f_never += 1;
        }
        if !self.suppress_faults && self.knobs.p_drop_wake > 0 && self.ch.chance("leaf.dropwake", self.knobs.p_drop_wake, 16) {
            let to = self.ch.draw("leaf.dropwake.to", 8);
            self.nodes[id as usize].drop_wake = Some(to);
        }
        id
    }

    pub fn node(&self, id: NodeId) -> &Node {
        &self.nodes[id as usize]
    }
    pub fn node_mut(&mut self, id: NodeId) -> &mut Node {
        &mut self.nodes[id as usize]
    }

    // ---------------------------------------------------------------- values

    pub fn val_new(&mut self, by: NodeId) -> u32 {
        let id = self.vals.len() as u32;
        self.vals.push(ValInfo {
            by,
            state: ValState::Live,
            returned: 0,
            dropped: 0,
            parts: Vec::new(),
            absorbed: false,
            untracked: false,
        });
        self.emit(Ev::ValCreated { v: id, by });
        if by != NO_NODE {
            self.nodes[by as usize].produced.push(id);
        }
        id
    }

    pub fn val_compose(&mut self, by: NodeId, parts: Vec<u32>) -> u32 {
        let id = self.vals.len() as u32;
        for &p in &parts {
            if let Some(v) = self.vals.get_mut(p as usize) {
                v.absorbed = true;
            }
        }
        self.vals.push(ValInfo {
            by,
            state: ValState::Live,
            returned: 0,
            dropped: 0,
            parts,
            absorbed: false,
            untracked: false,
        });
        if by != NO_NODE {
            self.nodes[by as usize].produced.push(id);
        }
        id
    }

    pub fn canary(id: u32) -> u32 {
        id.wrapping_mul(0x9E37_79B1) ^ 0xC0FF_EE11
    }

    /// Called from `Val::drop`.
    pub fn val_dropped(&mut self, id: u32, canary: u32) {
        if canary != Self::canary(id) || id as usize >= self.vals.len() {
            self.flag("c02.val_bogus", || {
                format!("drop of a value that was never created (id {id:#x}, bad canary)")
            });
            return;
        }
        self.val_dropped_rec(id);
    }

    fn val_dropped_rec(&mut self, id: u32) {
        self.emit(Ev::ValDropped { v: id });
        let v = &mut self.vals[id as usize];
        v.dropped = v.dropped.saturating_add(1);
        v.state = ValState::Dropped;
        if v.dropped > 1 {
            let d = v.dropped;
            self.flag("c02.val_drop", || format!("value v{id} dropped {d} times"));
        }
        let parts = self.vals[id as usize].parts.clone();
        for p in parts {
            self.val_dropped_rec(p);
        }
    }

    /// The harness received `id` from the root. Returns false if bogus.
    pub fn val_returned(&mut self, id: u32, canary: u32) -> bool {
        if canary != Self::canary(id) || id as usize >= self.vals.len() {
            self.flag("c02.val_bogus", || {
                format!("root returned a value no child produced (id {id:#x}, bad canary)")
            });
            return false;
        }
        self.val_returned_rec(id);
        true
    }

    fn val_returned_rec(&mut self, id: u32) {
        self.emit(Ev::ValReturned { v: id });
        let v = &mut self.vals[id as usize];
        if v.dropped > 0 {
            self.flag("c02.val_bogus", || format!("root returned value v{id} after it was dropped"));
        }
        let v = &mut self.vals[id as usize];
        v.returned = v.returned.saturating_add(1);
        if v.returned > 1 {
            self.flag("c02.val_bogus", || format!("value v{id} returned twice"));
        }
        let parts = self.vals[id as usize].parts.clone();
        for p in parts {
            self.val_returned_rec(p);
        }
    }

    /// Flatten a (possibly composite) value into its leaf-produced parts.
    pub fn val_flat(&self, id: u32, out: &mut Vec<u32>) {
        let v = &self.vals[id as usize];
        if v.parts.is_empty() {
            out.push(id);
        } else {
            for &p in &v.parts {
                self.val_flat(p, out);
            }
        }
    }

    // ---------------------------------------------------------------- nodes

    /// Called from the `Drop` of leaf and probe handles.
    pub fn node_dropped(&mut self, id: NodeId) {
        if id as usize >= self.nodes.len() {
            self.flag("c02.child_drop", || format!("drop of a child handle that never existed ({id:#x})"));
            return;
        }
        self.emit(Ev::NodeDropped { node: id });
        let in_poll = self.nodes[id as usize].in_poll;
        let n = &mut self.nodes[id as usize];
        n.dropped = n.dropped.saturating_add(1);
        if n.dropped > 1 {
            let d = n.dropped;
            self.flag("c02.child_drop", || format!("child n{id} dropped {d} times"));
        }
        if in_poll {
            self.flag("c02.child_drop", || format!("child n{id} dropped while it is being polled"));
        }
        crate::oracle::on_node_dropped(self, id);
    }

    /// F14: which node's waker does leaf `id` fire from its destructor (if any, and if that is possible now)?
    pub fn drop_wake_target(&mut self, id: NodeId) -> Option<NodeId> {
        let raw = self.nodes.get(id as usize)?.drop_wake?;
        if self.suppress_faults || self.in_fire > 0 {
            return None;
        }
        let parent = self.nodes[id as usize].parent;
        if parent == NO_NODE {
            return None;
        }
        let sibs = &self.nodes[parent as usize].children;
        let t = sibs[raw as usize % sibs.len()];
        let n = &self.nodes[t as usize];
        if !n.is_leaf() || !n.handed.iter().any(|h| h.0 == n.cur_wid) {
            return None;
        }
        self.stats.f_drop_wake += 1;
        self.emit(Ev::Fault { what: "wake fired from a child's destructor", arg: t });
        Some(t)
    }

    // ---------------------------------------------------------------- executor bits

    pub fn task_wake(&mut self, gen: u32) {
        let counted = gen == self.gen_newest && self.root_alive && !self.root_done;
        self.emit(Ev::TaskWake { gen, counted });
        if counted {
            self.woken = true;
        }
    }

    pub fn consumer_driven(&self) -> bool {
        let r = &self.nodes[ROOT as usize];
        r.polls == 0 || r.last == Some(Res::Some) || self.group_op_since_poll
    }

    pub fn schedule_wake(&mut self, node: NodeId, delay: u32) {
        self.events.push(PendingWake { node, due: self.now + delay as u64 });
        self.nodes[node as usize].pending_events += 1;
        if delay > 1 {
            self.stats.f_delayed += 1;
        }
    }
}
