//! ConcurrentStream workloads and oracles (C13, C14, C15).
//!
//! The source is a scripted stream (`.co()`) or a `Vec` (`into_co_stream()`); every
//! closure handed to `map` / `for_each` / `try_for_each` logs its invocation and
//! returns a dynamically created *scripted work future* (a leaf of the root), so the
//! scheduler decides the interleaving of source readiness and work progress. The
//! real `futures-buffered::FuturesUnordered` sits between them.

use crate::gen::{fut_script, Plan, Profile, Shape};
use crate::leaf::{harvest_out, leaf_poll_common, Harvest, Out, SimStream, Val};
use crate::roots::Root;
use crate::world::{with, Ev, Family, NodeId, Res, Step, Terminal as Term, World, NO_NODE, ROOT};
use futures_concurrency::concurrent_stream::{ConcurrentStream, IntoConcurrentStream};
use futures_concurrency::prelude::*;
use std::future::Future;
use std::marker::PhantomData;
use std::num::NonZeroUsize;
use std::pin::Pin;
use std::task::{Context, Poll};

// ------------------------------------------------------------------ spec

#[derive(Clone, Copy, PartialEq, Eq, Debug)]
pub enum Terminal {
    ForEach,
    TryForEach,
    CollectVec,
    CollectResult,
}

impl Terminal {
    fn name(self) -> &'static str {
        match self {
            Terminal::ForEach => "for_each",
            Terminal::TryForEach => "try_for_each",
            Terminal::CollectVec => "collect_vec",
            Terminal::CollectResult => "collect_result",
        }
    }
}

#[derive(Clone, Copy, PartialEq, Eq, Debug)]
pub enum Ad {
    Map,
    Enumerate,
    Take,
    Limit,
}

#[derive(Clone, Debug)]
pub struct CoSpec {
    pub stack: usize,
    pub vec_source: bool,
    pub vec_len: usize,
    /// argument of the adapter at each position (take: n; limit: n with 0 = None)
    pub args: [u32; 3],
    pub terminal: Terminal,
    /// bulk run: the source delivers this many items back to back (0 = ordinary run)
    pub bulk: u32,
}

impl CoSpec {
    pub fn ads(&self) -> &'static [Ad] {
        STACKS[self.stack].1
    }
    pub fn take(&self) -> Option<usize> {
        self.ads().iter().enumerate().filter(|(_, a)| **a == Ad::Take).map(|(i, _)| self.args[i] as usize).min()
    }
    /// effective concurrency limit: the `limit` adapter closest to the terminal wins
    pub fn limit(&self) -> Option<usize> {
        self.ads().iter().enumerate().rev().find(|(_, a)| **a == Ad::Limit).and_then(|(i, _)| match self.args[i] {
            0 => None,
            n => Some(n as usize),
        })
    }
    pub fn key(&self) -> String {
        format!(
            "co/{}/{}/{}{}",
            self.terminal.name(),
            STACKS[self.stack].0,
            if self.vec_source { "vec" } else { "stream" },
            if self.take() == Some(0) { "/take0" } else { "" }
        )
    }
    pub fn describe(&self) -> String {
        let mut s = if self.vec_source { format!("vec(len {}).into_co_stream()", self.vec_len) } else { "scripted_stream.co()".to_string() };
        for (i, a) in self.ads().iter().enumerate() {
            match a {
                Ad::Map => s.push_str(".map(f)"),
                Ad::Enumerate => s.push_str(".enumerate()"),
                Ad::Take => s.push_str(&format!(".take({})", self.args[i])),
                Ad::Limit => s.push_str(&match self.args[i] {
                    0 => ".limit(None)".to_string(),
                    n => format!(".limit({n})"),
                }),
            }
        }
        s.push_str(match self.terminal {
            Terminal::ForEach => ".for_each(g)",
            Terminal::TryForEach => ".try_for_each(g)",
            Terminal::CollectVec => ".collect::<Vec<_>>()",
            Terminal::CollectResult => ".map(try_f).collect::<Result<Vec<_>, _>>()",
        });
        s
    }
}

// ------------------------------------------------------------------ model

#[derive(Clone, Copy, PartialEq, Eq, Debug)]
pub enum StageKind {
    Map,
    TryMap,
    ForEach,
    TryForEach,
}

pub struct Work {
    pub node: NodeId,
    pub stage: u8,
    pub item: u32,
}

#[derive(Default)]
pub struct CoModel {
    pub active: bool,
    pub source: Option<NodeId>,
    pub vec_items: Vec<u32>,
    pub stages: Vec<StageKind>,
    pub calls: Vec<Vec<u32>>,
    pub works: Vec<Work>,
    pub limit: Option<usize>,
    pub take: Option<usize>,
    pub terminal: Option<Terminal>,
    pub errs: Vec<u32>,
    pub first_err_at: Option<usize>,
    pub resolved: bool,
    pub bulk: u32,
}

fn co_prop(w: &World) -> bool {
    matches!(w.prop, "C13" | "C14" | "C15")
}

fn cflag(w: &mut World, suffix: &'static str, msg: impl FnOnce() -> String) {
    if co_prop(w) {
        w.flag_current(suffix, msg);
    }
}

fn produced(w: &World) -> Vec<u32> {
    match w.model.co.source {
        Some(s) => w.node(s).produced.clone(),
        None => w.model.co.vec_items.clone(),
    }
}

fn in_flight(w: &World) -> usize {
    w.model.co.works.iter().filter(|k| !w.node(k.node).done && w.node(k.node).dropped == 0).count()
}

/// Called from a closure of stage `stage` with the item it received.
fn on_closure(w: &mut World, stage: u8, vid: u32, indices: &[usize]) {
    w.emit(Ev::ClosureCalled { which: stage, item: vid });
    let prod = produced(w);
    let pos = prod.iter().position(|&p| p == vid);
    let kind = w.model.co.stages[stage as usize];
    match pos {
        None => cflag(w, "unknown_item", || format!("closure of stage {stage} ({kind:?}) was called with v{vid}, which the source never produced")),
        Some(pos) => {
            if w.model.co.calls[stage as usize].contains(&vid) {
                cflag(w, "twice", || format!("closure of stage {stage} ({kind:?}) was called a second time for source item #{pos} (v{vid})"));
            }
            for &ix in indices {
                if ix != pos {
                    cflag(w, "enumerate", || format!("enumerate paired source item #{pos} (v{vid}) with index {ix}"));
                }
            }
            if let Some(n) = w.model.co.take {
                if pos >= n {
                    cflag(w, "take", || format!("take({n}) in the stack, yet source item #{pos} (v{vid}) reached the closure of stage {stage} ({kind:?})"));
                }
            }
        }
    }
    w.model.co.calls[stage as usize].push(vid);
}

fn on_work_created(w: &mut World, node: NodeId, stage: u8, item: u32) {
    w.emit(Ev::WorkCreated { node });
    w.model.co.works.push(Work { node, stage, item });
    let bounded = matches!(w.model.co.terminal, Some(Terminal::ForEach | Terminal::TryForEach));
    if let (true, Some(n)) = (bounded, w.model.co.limit) {
        let live = in_flight(w);
        if live > n {
            cflag(w, "limit", || format!("{live} closure futures are in flight (created, not completed, not dropped) although the concurrency limit is {n}"));
        }
        if live == n {
            w.stats.p_backpressure += 1;
        }
    }
}

/// A work future or the source finished a poll.
pub fn on_poll_end(w: &mut World, id: NodeId, res: Res, val: Option<u32>) {
    if !w.model.co.active {
        return;
    }
    if Some(id) == w.model.co.source {
        if res == Res::Some {
            if let Some(at) = w.model.co.first_err_at {
                cflag(w, "source_after_error", || format!("an item was taken from the source after a work future had returned Err (log position {at})"));
            }
        }
        return;
    }
    if matches!(res, Res::Ready | Res::Ok | Res::Err) && matches!(w.model.co.terminal, Some(Terminal::TryForEach | Terminal::CollectResult)) {
        if let Some(at) = w.model.co.first_err_at {
            cflag(w, "ran_after_error", || {
                format!("work future n{id} ran to completion after a work future had already returned Err (log position {at}); futures still in flight must be dropped unfinished")
            });
        }
    }
    if res == Res::Err {
        if let Some(v) = val {
            w.model.co.errs.push(v);
        }
        if w.model.co.first_err_at.is_none() {
            w.model.co.first_err_at = Some(w.log.len());
            // where does the first error surface? (reach probes)
            let source_done = match w.model.co.source {
                Some(s) => w.node(s).done,
                None => w.node(ROOT).polls > 1,
            };
            let saturated = matches!(w.model.co.limit, Some(n) if in_flight(w) + 1 >= n);
            if source_done {
                w.stats.p_err_in_flush += 1;
            } else if saturated {
                w.stats.p_err_saturated += 1;
            } else {
                w.stats.p_err_in_progress += 1;
            }
        }
    }
}

pub fn on_root_poll_end(w: &mut World, out: &Out) {
    if !w.model.co.active {
        return;
    }
    if w.frame.iter().filter(|f| f.1.is_final() && Some(f.0) != w.model.co.source).count() >= 64 {
        w.stats.p_bulk_frame64 += 1;
    }
    if out.res == Res::Pending || out.res == Res::Panic {
        return;
    }
    w.model.co.resolved = true;
    w.stats.o_co_final += 1;
    let term = w.model.co.terminal.unwrap();
    let prod = produced(w);
    let want: Vec<u32> = match w.model.co.take {
        Some(n) => prod.iter().copied().take(n).collect(),
        None => prod.clone(),
    };
    let errs = w.model.co.errs.clone();
    let is_err = out.res == Res::Err;
    // ---- error results
    if is_err {
        let e = out.vals.first().copied().unwrap_or(u32::MAX);
        if !errs.contains(&e) {
            cflag(w, "invented_error", || format!("the operation resolved to Err(v{e}) but no work future returned that error"));
        }
        if w.model.co.first_err_at.is_some() && in_flight(w) > 0 {
            w.stats.p_err_in_flush += 0;
        }
        return;
    }
    if !errs.is_empty() {
        let e = errs[0];
        cflag(w, "swallowed_error", || format!("a work future returned Err(v{e}) before the operation resolved, yet the result is {}", out.res.name()));
        return;
    }
    // ---- successful completion: everything the stack should process was processed
    let source_done = match w.model.co.source {
        Some(s) => w.node(s).done && w.node(s).last == Some(Res::None),
        None => true,
    };
    let truncated = matches!(w.model.co.take, Some(n) if prod.len() >= n);
    if !truncated && !source_done {
        cflag(w, "early", || "the operation resolved successfully although the source has not ended and no take(n) limit was reached".to_string());
    }
    if w.model.co.source.is_none() && !truncated {
        // vec source: every element must have been taken
    }
    let last_stage = w.model.co.stages.len().saturating_sub(1);
    for (k, kind) in w.model.co.stages.clone().into_iter().enumerate() {
        let calls = w.model.co.calls[k].clone();
        for &v in &want {
            let c = calls.iter().filter(|&&x| x == v).count();
            if c != 1 {
                let pos = prod.iter().position(|&p| p == v).unwrap_or(usize::MAX);
                cflag(w, "missed", || format!("closure of stage {k} ({kind:?}) was called {c} times for source item #{pos} (v{v}); expected exactly once"));
            }
        }
        if calls.len() > want.len() {
            let (c, n) = (calls.len(), want.len());
            cflag(w, "count", || format!("closure of stage {k} ({kind:?}) was called {c} times but exactly {n} source items should be processed"));
        }
        let _ = last_stage;
    }
    // every created work future has completed
    let pending: Vec<NodeId> = w.model.co.works.iter().filter(|k| !w.node(k.node).done).map(|k| k.node).collect();
    if let Some(&n) = pending.first() {
        cflag(w, "incomplete", || format!("the operation resolved successfully although work future n{n} has not completed ({} outstanding)", pending.len()));
    }
    // collected output
    if matches!(term, Terminal::CollectVec | Terminal::CollectResult) {
        let mut got = out.vals.clone();
        let mut exp = want.clone();
        got.sort_unstable();
        exp.sort_unstable();
        if got != exp {
            cflag(w, "collect", || format!("collected values {got:?} differ (as a multiset) from the outputs of the processed items {exp:?}"));
        }
    }
}

/// Is a Pending concurrent-stream root legitimately blocked?
pub fn blocked(w: &World) -> Result<(), (NodeId, String)> {
    if matches!(w.model.co.terminal, Some(Terminal::TryForEach | Terminal::CollectResult)) {
        if let (Some(at), Some(&e)) = (w.model.co.first_err_at, w.model.co.errs.first()) {
            // after an error nothing is taken from the source any more and the in-flight futures are dropped:
            // there is nothing left to wait for, the operation has to report the error
            return Err((ROOT, format!("a work future returned Err(v{e}) (log position {at}) but the operation is still pending with no wake-up outstanding: the error is never reported")));
        }
    }
    let mut waiting_on = None;
    let live_kids: Vec<NodeId> = w.node(ROOT).children.iter().copied().filter(|&c| !w.node(c).done && w.node(c).dropped == 0).collect();
    for &c in &live_kids {
        let n = w.node(c);
        if n.parked() {
            if n.fired_cur {
                return Err((c, format!("n{c} was woken after its last poll but never polled again")));
            }
            if n.pending_events > 0 {
                return Err((c, format!("n{c} still has a scheduled wake-up (harness)")));
            }
            waiting_on = Some(c);
        }
    }
    match waiting_on {
        Some(_) => Ok(()),
        None => Err((ROOT, "no source or work future is pending, yet the operation has not resolved".to_string())),
    }
}

pub fn at_root_drop_end(w: &mut World) {
    if !w.model.co.active {
        return;
    }
    for k in 0..w.model.co.works.len() {
        let n = w.model.co.works[k].node;
        if w.node(n).dropped == 0 {
            cflag(w, "outlive", || format!("work future n{n} is still alive after the drop of the operation's future returned"));
            return;
        }
    }
}

// ------------------------------------------------------------------ items

pub trait CoItem: Harvest + 'static {
    fn val_id(&self) -> u32;
    fn indices(&self, out: &mut Vec<usize>);
}
impl CoItem for Val {
    fn val_id(&self) -> u32 {
        self.id
    }
    fn indices(&self, _out: &mut Vec<usize>) {}
}
impl<I: CoItem> CoItem for (usize, I) {
    fn val_id(&self) -> u32 {
        self.1.val_id()
    }
    fn indices(&self, out: &mut Vec<usize>) {
        out.push(self.0);
        self.1.indices(out);
    }
}
impl Harvest for usize {
    fn harvest(&self, _out: &mut Vec<(u32, u32)>) {}
}

// ------------------------------------------------------------------ work futures

pub trait Finish<I>: 'static {
    type Out;
    const FALLIBLE: bool;
    /// Build the output. Must not drop values while the world is borrowed.
    fn finish(node: NodeId, item: I, err: bool) -> (Self::Out, Res, Option<u32>);
}
pub struct Pass;
pub struct TryPass;
pub struct Unit;
pub struct TryUnit;

impl<I: CoItem> Finish<I> for Pass {
    type Out = I;
    const FALLIBLE: bool = false;
    fn finish(_node: NodeId, item: I, _err: bool) -> (I, Res, Option<u32>) {
        let id = item.val_id();
        (item, Res::Ready, Some(id))
    }
}
impl<I: CoItem> Finish<I> for TryPass {
    type Out = Result<I, Val>;
    const FALLIBLE: bool = true;
    fn finish(node: NodeId, item: I, err: bool) -> (Result<I, Val>, Res, Option<u32>) {
        if err {
            let e = with(|w| Val::new(w, node));
            let id = e.id;
            drop(item);
            (Err(e), Res::Err, Some(id))
        } else {
            let id = item.val_id();
            (Ok(item), Res::Ok, Some(id))
        }
    }
}
impl<I: CoItem> Finish<I> for Unit {
    type Out = ();
    const FALLIBLE: bool = false;
    fn finish(_node: NodeId, item: I, _err: bool) -> ((), Res, Option<u32>) {
        drop(item);
        ((), Res::Ready, None)
    }
}
impl<I: CoItem> Finish<I> for TryUnit {
    type Out = Result<(), Val>;
    const FALLIBLE: bool = true;
    fn finish(node: NodeId, item: I, err: bool) -> (Result<(), Val>, Res, Option<u32>) {
        drop(item);
        if err {
            let e = with(|w| Val::new(w, node));
            let id = e.id;
            (Err(e), Res::Err, Some(id))
        } else {
            (Ok(()), Res::Ok, None)
        }
    }
}

pub struct SimWork<I, M> {
    node: NodeId,
    item: Option<I>,
    _m: PhantomData<fn() -> M>,
}
impl<I, M> Unpin for SimWork<I, M> {}
impl<I, M> Drop for SimWork<I, M> {
    fn drop(&mut self) {
        let id = self.node;
        with(|w| w.node_dropped(id));
        // the held item (if any) is dropped after this, outside the world borrow
    }
}
impl<I: CoItem, M: Finish<I>> Future for SimWork<I, M> {
    type Output = M::Out;
    fn poll(mut self: Pin<&mut Self>, cx: &mut Context<'_>) -> Poll<M::Out> {
        let id = self.node;
        let act = leaf_poll_common(id, cx);
        match act.step() {
            Some(Step::Ready { err }) => {
                let item = self.item.take().expect("harness: work future polled after completion");
                let (out, res, val) = M::finish(id, item, err && M::FALLIBLE);
                with(|w| w.poll_end(id, res, val));
                Poll::Ready(out)
            }
            Some(Step::Pend(_)) | None => {
                with(|w| w.poll_end(id, Res::Pending, None));
                Poll::Pending
            }
            Some(other) => unreachable!("harness: work script contains {other:?}"),
        }
    }
}

/// The closure of closure-stage `stage`: logs the call, creates a scripted work future.
fn spawn<I: CoItem, M: Finish<I>>(stage: u8, item: I) -> SimWork<I, M> {
    let mut idx = Vec::new();
    item.indices(&mut idx);
    let vid = item.val_id();
    let boom = with(|w| {
        w.closure_call_counter += 1;
        let boom = w.panic_at_closure_call != 0 && w.closure_call_counter == w.panic_at_closure_call;
        if boom {
            w.stats.f_panic += 1;
            w.emit(Ev::Fault { what: "panic in a user closure", arg: stage as u32 });
        }
        boom
    });
    if boom {
        // the item is dropped by the unwinding closure frame, like in a real closure
        std::panic::panic_any(crate::leaf::InjectedPanic);
    }
    let node = with(|w| {
        on_closure(w, stage, vid, &idx);
        let p = crate::gen::profile(w.prop);
        let lp = if w.model.co.bulk > 0 {
            let mut script = Vec::new();
            if w.ch.draw("work.bulk.pend", 2) == 1 {
                script.push(Step::Pend(crate::world::Wake::Later(w.ch.draw("work.bulk.delay", 3))));
            }
            // about four failures per bulk run: a swallowed error shows at once as "source item taken / work completed
            // after an error", whatever the final result
            let err = M::FALLIBLE && w.ch.draw("work.bulk.err", w.model.co.bulk) < 4;
            script.push(Step::Ready { err });
            crate::gen::LeafPlan { script, term: Term::Finished }
        } else {
            let bias = 1 + w.ch.draw("work.errbias", 3);
            fut_script(w, M::FALLIBLE, &p, true, bias)
        };
        let node = w.new_leaf(ROOT, lp.script, lp.term, false, M::FALLIBLE);
        on_work_created(w, node, stage, vid);
        node
    });
    SimWork { node, item: Some(item), _m: PhantomData }
}

fn closure<I: CoItem, M: Finish<I>>(stage: u8) -> impl Fn(I) -> SimWork<I, M> + Clone {
    move |item: I| spawn::<I, M>(stage, item)
}

// ------------------------------------------------------------------ roots

pub struct CoRoot<O>(Pin<Box<dyn Future<Output = O>>>);
impl<O: Harvest> Root for CoRoot<O> {
    fn poll(&mut self, cx: &mut Context<'_>) -> Out {
        match self.0.as_mut().poll(cx) {
            Poll::Pending => Out::pending(),
            Poll::Ready(v) => harvest_out(v, Res::Ready),
        }
    }
}
fn root<O: Harvest + 'static>(f: impl Future<Output = O> + 'static) -> Box<dyn Root> {
    Box::new(CoRoot(Box::pin(f)))
}

/// Names and adapter lists of the generated stacks.
pub const STACKS: &[(&str, &[Ad])] = &[
    ("-", &[]),
    ("map", &[Ad::Map]),
    ("enumerate", &[Ad::Enumerate]),
    ("take", &[Ad::Take]),
    ("limit", &[Ad::Limit]),
    ("map.map", &[Ad::Map, Ad::Map]),
    ("map.enumerate", &[Ad::Map, Ad::Enumerate]),
    ("map.take", &[Ad::Map, Ad::Take]),
    ("map.limit", &[Ad::Map, Ad::Limit]),
    ("enumerate.map", &[Ad::Enumerate, Ad::Map]),
    ("enumerate.enumerate", &[Ad::Enumerate, Ad::Enumerate]),
    ("enumerate.take", &[Ad::Enumerate, Ad::Take]),
    ("enumerate.limit", &[Ad::Enumerate, Ad::Limit]),
    ("take.map", &[Ad::Take, Ad::Map]),
    ("take.enumerate", &[Ad::Take, Ad::Enumerate]),
    ("take.take", &[Ad::Take, Ad::Take]),
    ("take.limit", &[Ad::Take, Ad::Limit]),
    ("limit.map", &[Ad::Limit, Ad::Map]),
    ("limit.enumerate", &[Ad::Limit, Ad::Enumerate]),
    ("limit.take", &[Ad::Limit, Ad::Take]),
    ("limit.limit", &[Ad::Limit, Ad::Limit]),
    ("limit.map.take", &[Ad::Limit, Ad::Map, Ad::Take]),
    ("take.map.limit", &[Ad::Take, Ad::Map, Ad::Limit]),
    ("map.enumerate.take", &[Ad::Map, Ad::Enumerate, Ad::Take]),
    ("enumerate.take.map", &[Ad::Enumerate, Ad::Take, Ad::Map]),
    ("take.enumerate.limit", &[Ad::Take, Ad::Enumerate, Ad::Limit]),
    ("limit.take.enumerate", &[Ad::Limit, Ad::Take, Ad::Enumerate]),
    ("map.limit.map", &[Ad::Map, Ad::Limit, Ad::Map]),
    ("enumerate.map.take", &[Ad::Enumerate, Ad::Map, Ad::Take]),
    ("limit.enumerate.map", &[Ad::Limit, Ad::Enumerate, Ad::Map]),
    ("take.limit.take", &[Ad::Take, Ad::Limit, Ad::Take]),
    ("map.take.enumerate", &[Ad::Map, Ad::Take, Ad::Enumerate]),
];

fn nz(n: u32) -> Option<NonZeroUsize> {
    NonZeroUsize::new(n as usize)
}

/// Apply the adapters of a stack to `$s`; `$st` counts closure stages, `$pos` adapter positions.
macro_rules! apply {
    ($s:expr, $args:expr, $st:expr, $pos:expr;) => { ($s, $st) };
    ($s:expr, $args:expr, $st:expr, $pos:expr; map $($rest:ident)*) => {
        apply!($s.map(closure::<_, Pass>($st)), $args, $st + 1, $pos + 1; $($rest)*)
    };
    ($s:expr, $args:expr, $st:expr, $pos:expr; enumerate $($rest:ident)*) => {
        apply!($s.enumerate(), $args, $st, $pos + 1; $($rest)*)
    };
    ($s:expr, $args:expr, $st:expr, $pos:expr; take $($rest:ident)*) => {
        apply!($s.take($args[$pos] as usize), $args, $st, $pos + 1; $($rest)*)
    };
    ($s:expr, $args:expr, $st:expr, $pos:expr; limit $($rest:ident)*) => {
        apply!($s.limit(nz($args[$pos])), $args, $st, $pos + 1; $($rest)*)
    };
}

macro_rules! terminal {
    ($src:expr, $spec:expr; $($ad:ident)*) => {{
        let args = $spec.args;
        let (s, st): (_, u8) = apply!($src, args, 0u8, 0usize; $($ad)*);
        match $spec.terminal {
            Terminal::ForEach => root(s.for_each(closure::<_, Unit>(st))),
            Terminal::TryForEach => root(s.try_for_each(closure::<_, TryUnit>(st))),
            Terminal::CollectVec => root(async move { let v: Vec<_> = s.collect().await; v }),
            Terminal::CollectResult => root(async move {
                let v: Result<Vec<_>, Val> = s.map(closure::<_, TryPass>(st)).collect().await;
                v
            }),
        }
    }};
}

macro_rules! stacks {
    ($src:expr, $spec:expr; $( $idx:literal => [$($ad:ident)*] ),* $(,)?) => {
        match $spec.stack {
            $( $idx => terminal!($src, $spec; $($ad)*), )*
            other => unreachable!("harness: no stack {other}"),
        }
    };
}

macro_rules! all_stacks {
    ($src:expr, $spec:expr) => {
        stacks!($src, $spec;
            0 => [], 1 => [map], 2 => [enumerate], 3 => [take], 4 => [limit],
            5 => [map map], 6 => [map enumerate], 7 => [map take], 8 => [map limit],
            9 => [enumerate map], 10 => [enumerate enumerate], 11 => [enumerate take], 12 => [enumerate limit],
            13 => [take map], 14 => [take enumerate], 15 => [take take], 16 => [take limit],
            17 => [limit map], 18 => [limit enumerate], 19 => [limit take], 20 => [limit limit],
            21 => [limit map take], 22 => [take map limit], 23 => [map enumerate take], 24 => [enumerate take map],
            25 => [take enumerate limit], 26 => [limit take enumerate], 27 => [map limit map], 28 => [enumerate map take],
            29 => [limit enumerate map], 30 => [take limit take], 31 => [map take enumerate],
        )
    };
}

/// Stacks available for the Vec source (a subset, to keep compile time in check).
pub const VEC_STACKS: &[usize] = &[0, 1, 2, 3, 4, 8, 19];

macro_rules! vec_stacks {
    ($src:expr, $spec:expr) => {
        stacks!($src, $spec;
            0 => [], 1 => [map], 2 => [enumerate], 3 => [take], 4 => [limit], 8 => [map limit], 19 => [limit take],
        )
    };
}

fn stage_kinds(spec: &CoSpec) -> Vec<StageKind> {
    let mut v: Vec<StageKind> = spec.ads().iter().filter(|a| **a == Ad::Map).map(|_| StageKind::Map).collect();
    match spec.terminal {
        Terminal::ForEach => v.push(StageKind::ForEach),
        Terminal::TryForEach => v.push(StageKind::TryForEach),
        Terminal::CollectVec => {}
        Terminal::CollectResult => v.push(StageKind::TryMap),
    }
    v
}

pub fn planned_items(plan: &Plan) -> u32 {
    match &plan.shape {
        Shape::Co { spec } => spec.bulk,
        _ => 0,
    }
}

pub fn build(spec: &CoSpec, plan: &Plan) -> Box<dyn Root> {
    let (src_node, vec_vals) = with(|w| {
        let r = w.new_node(NO_NODE, Family::CoStream);
        debug_assert_eq!(r, ROOT);
        let stages = stage_kinds(spec);
        w.model.co = CoModel {
            active: true,
            calls: vec![Vec::new(); stages.len()],
            stages,
            limit: spec.limit(),
            take: spec.take(),
            bulk: spec.bulk,
            terminal: Some(spec.terminal),
            ..CoModel::default()
        };
        let mut vals = Vec::new();
        let mut src = None;
        if spec.vec_source {
            for _ in 0..spec.vec_len {
                let v = Val::new(w, NO_NODE);
                w.model.co.vec_items.push(v.id);
                vals.push(v);
            }
        } else {
            let lp = &plan.leaves[0];
            let id = w.new_leaf(ROOT, lp.script.clone(), lp.term, true, false);
            w.model.co.source = Some(id);
            src = Some(id);
        }
        w.emit(Ev::RootCreated { fam: Family::CoStream });
        (src, vals)
    });
    if spec.vec_source {
        vec_stacks!(vec_vals.into_co_stream(), spec)
    } else {
        all_stacks!(SimStream::new(src_node.unwrap()).co(), spec)
    }
}

// ------------------------------------------------------------------ planning

pub fn plan(w: &mut World, p: &Profile, prop: &str) -> Plan {
    let vec_source = w.ch.draw("co.vec", 5) == 4;
    let terminals: &[Terminal] = match prop {
        "C13" => &[Terminal::ForEach],
        "C14" => &[Terminal::TryForEach, Terminal::CollectResult],
        "C15" => &[Terminal::CollectVec, Terminal::ForEach, Terminal::TryForEach, Terminal::CollectVec],
        _ => &[Terminal::ForEach, Terminal::TryForEach, Terminal::CollectVec, Terminal::CollectResult],
    };
    let terminal = terminals[w.ch.draw("co.terminal", terminals.len() as u32) as usize];
    // which stacks are in the property's scope: C13/C14 state their guarantees without take()
    // (C14 speaks of "every source item"; C13's clauses — exactly once per item of the stream, structured completion,
    // the concurrency limit — hold for a stream that ends in take(n) as well)
    // Two thirds of the C14 runs stay without take(); in the rest "every source item" reads "every item the
    // stack admits" (the first min(n, len)), all other clauses of C14 apply unchanged.
    let no_take = matches!(prop, "C14") && w.ch.draw("co.c14.notake", 3) != 0;
    let pool: Vec<usize> = if vec_source { VEC_STACKS.to_vec() } else { (0..STACKS.len()).collect() };
    let pool: Vec<usize> = pool.into_iter().filter(|&s| !(no_take && STACKS[s].1.contains(&Ad::Take))).collect();
    let stack = pool[w.ch.draw("co.stack", pool.len() as u32) as usize];
    let mut vec_len = w.ch.draw("co.veclen", 7) as usize;
    // one Vec source in five is long: 33..70 elements, or 129..330 (Vec::into_co_stream has its own iterator adapter;
    // batch sizes of 32 / 64 / 128 and 8-bit counters in it are only visible beyond those lengths)
    let mut vec_bulk = 0;
    if vec_source && prop != "C02" && !crate::gen::small() && w.ch.draw("co.vec.big", 5) == 4 {
        vec_len = if w.ch.draw("co.vec.big.kind", 2) == 0 { 33 + w.ch.draw("co.vec.big.n", 38) as usize } else { 129 + w.ch.draw("co.vec.big.n", 202) as usize };
        vec_bulk = vec_len as u32;
    }
    let mut leaves = Vec::new();
    let mut len_hint = vec_len;
    if !vec_source {
        let mut sp = p.clone();
        sp.allow_never = p.allow_never;
        let lp = crate::gen::stream_script(w, &sp, false);
        len_hint = lp.script.iter().filter(|s| matches!(s, Step::Item)).count();
        leaves.push(lp);
    }
    let mut args = [0u32; 3];
    for (i, a) in STACKS[stack].1.iter().enumerate() {
        args[i] = match a {
            Ad::Take => match w.ch.draw("co.take", 8) {
                0 => 0,
                1 => 1,
                2 => 2,
                3 => len_hint.saturating_sub(1) as u32,
                4 => len_hint as u32,
                5 => len_hint as u32 + 1,
                _ => w.ch.draw("co.take.n", 8),
            },
            Ad::Limit => [1, 2, 3, 5, 0, 1, 2][w.ch.draw("co.limit", 7) as usize],
            _ => 0,
        };
    }
    // bulk run (one in twenty-five, not for C02): 65..135 source items back to back, then a pause, then the rest.
    // Work futures finish after at most one delayed wake and fail rarely, so that dozens of completions (beyond a
    // per-call budget of 32 or 64, beyond one 32-slot block of the buffered group) are pulled in one go.
    let mut bulk = 0;
    let bulk_every = if prop == "C14" { 6 } else { 25 };
    if !vec_source && prop != "C02" && !crate::gen::small() && w.ch.draw("co.bulk", bulk_every) == bulk_every - 1 {
        // usually 65..135 items; one bulk run in four has 250..330 (beyond any 8-bit item counter or index)
        bulk = if w.ch.draw("co.bulk.big", 4) == 3 { 250 + w.ch.draw("co.bulk.n", 80) } else { 65 + w.ch.draw("co.bulk.n", 70) };
        let mut script = vec![Step::Item; bulk as usize];
        // after the burst the source pauses (and later ends), or stalls for good: then every completion is pulled by
        // one and the same `progress` call
        let stalls = w.ch.draw("co.bulk.stall", 2) == 1;
        let mut term = Term::Finished;
        if stalls {
            script.push(Step::Pend(crate::world::Wake::NoWake));
            term = Term::Never;
        } else {
            script.push(Step::Pend(crate::world::Wake::Later(4)));
            for _ in 0..w.ch.draw("co.bulk.tail", 3) {
                script.push(Step::Item);
            }
            script.push(Step::End);
        }
        leaves[0] = crate::gen::LeafPlan { script, term };
        for (i, a) in STACKS[stack].1.iter().enumerate() {
            // limits below the bulk size would only serialise the run
            if *a == Ad::Limit && w.ch.draw("co.bulk.limit", 2) == 1 {
                args[i] = 0;
            }
        }
    }
    if vec_bulk > 0 {
        bulk = vec_bulk;
        for (i, a) in STACKS[stack].1.iter().enumerate() {
            if *a == Ad::Limit && w.ch.draw("co.bulk.limit", 2) == 1 {
                args[i] = 0;
            }
        }
    }
    let spec = CoSpec { stack, vec_source, vec_len, args, terminal, bulk };
    let cancel_at = if p.allow_cancel && w.ch.draw("cancel", 5) == 4 { Some(w.ch.draw("cancel.at", 8)) } else { None };
    let _ = Term::Finished;
    Plan { shape: Shape::Co { spec }, leaves, cancel_at, max_yields: u32::MAX, distinguished: None }
}
