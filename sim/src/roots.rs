//! Construction of the combinator under test ("root") for every family x container.

use crate::leaf::{harvest_out, Harvest, Out, PlainFut, SimFut, SimStream, Unit, UnitStream, Val};
use crate::world::{Family, NodeId, Res};
use futures_concurrency::future::{FutureExt as _, Join, Race, RaceOk, TryJoin};
use futures_concurrency::stream::{Chain, Merge, StreamExt as _, Zip};
use futures_core::Stream;
use std::future::Future;
use std::ops::Deref;
use std::pin::Pin;
use std::task::{Context, Poll};

#[derive(Clone, Copy, PartialEq, Eq, Debug)]
pub enum Cont {
    Tuple,
    Array,
    Vec,
    /// the two-argument extension-trait form (`a.join(b)`, `a.merge(b)`, ...)
    Ext2,
}

impl Cont {
    pub fn name(self) -> &'static str {
        match self {
            Cont::Tuple => "tuple",
            Cont::Array => "array",
            Cont::Vec => "vec",
            Cont::Ext2 => "ext2",
        }
    }
}

pub const ARRAY_SIZES: [usize; 13] = [0, 1, 2, 3, 4, 5, 8, 12, 23, 65, 31, 256, 257];

pub trait GroupOps {
    fn insert(&mut self, node: NodeId) -> usize;
    fn remove(&mut self, key: usize) -> Option<bool>;
    fn reserve(&mut self, n: usize);
    fn extend(&mut self, nodes: &[NodeId]);
    fn len(&self) -> usize;
    fn is_empty(&self) -> bool;
    fn capacity(&self) -> usize;
    fn contains_key(&mut self, key: usize) -> Option<bool>;
}

pub trait Root {
    fn poll(&mut self, cx: &mut Context<'_>) -> Out;
    fn group(&mut self) -> Option<&mut dyn GroupOps> {
        None
    }
}

pub struct FutRoot<F>(pub Pin<Box<F>>);
impl<F: Future> FutRoot<F> {
    pub fn new(f: F) -> Box<Self> {
        Box::new(FutRoot(Box::pin(f)))
    }
}
impl<F: Future> Root for FutRoot<F>
where
    F::Output: Harvest,
{
    fn poll(&mut self, cx: &mut Context<'_>) -> Out {
        match self.0.as_mut().poll(cx) {
            Poll::Pending => Out::pending(),
            Poll::Ready(v) => harvest_out(v, Res::Ready),
        }
    }
}

pub struct StreamRoot<S>(pub Pin<Box<S>>);
impl<S: Stream> StreamRoot<S> {
    pub fn new(s: S) -> Box<Self> {
        Box::new(StreamRoot(Box::pin(s)))
    }
}
impl<S: Stream> Root for StreamRoot<S>
where
    S::Item: Harvest,
{
    fn poll(&mut self, cx: &mut Context<'_>) -> Out {
        match self.0.as_mut().poll_next(cx) {
            Poll::Pending => Out::pending(),
            Poll::Ready(None) => Out::none(),
            Poll::Ready(Some(v)) => harvest_out(v, Res::Some),
        }
    }
}

/// race_ok roots: the aggregate error type of the tuple impl cannot be named,
/// but every aggregate derefs to something slice-like.
pub struct AggWrap<E>(pub E);
impl<E> Harvest for AggWrap<E>
where
    E: Deref,
    E::Target: AsRef<[Val]>,
{
    fn harvest(&self, out: &mut Vec<(u32, u32)>) {
        for v in self.0.deref().as_ref() {
            out.push((v.id, v.canary));
        }
    }
}
pub struct AggRoot<F>(pub Pin<Box<F>>);
impl<F: Future> AggRoot<F> {
    pub fn new(f: F) -> Box<Self> {
        Box::new(AggRoot(Box::pin(f)))
    }
}
impl<F, T, E> Root for AggRoot<F>
where
    F: Future<Output = Result<T, E>>,
    T: Harvest,
    E: Deref,
    E::Target: AsRef<[Val]>,
{
    fn poll(&mut self, cx: &mut Context<'_>) -> Out {
        match self.0.as_mut().poll(cx) {
            Poll::Pending => Out::pending(),
            Poll::Ready(r) => harvest_out(r.map_err(AggWrap), Res::Ready),
        }
    }
}

type F = SimFut<Val>;
type TF = SimFut<Result<Val, Val>>;

fn f(n: NodeId) -> F {
    SimFut::new(n)
}
fn tf(n: NodeId) -> TF {
    SimFut::new(n)
}
fn pf(n: NodeId) -> PlainFut<Val> {
    PlainFut::new(n)
}
fn ptf(n: NodeId) -> PlainFut<Result<Val, Val>> {
    PlainFut::new(n)
}
fn uf(n: NodeId) -> SimFut<Unit> {
    SimFut::new(n)
}
fn utf(n: NodeId) -> SimFut<Result<Unit, Val>> {
    SimFut::new(n)
}
fn ust(n: NodeId) -> UnitStream {
    UnitStream::new(n)
}
fn st(n: NodeId) -> SimStream {
    SimStream::new(n)
}

macro_rules! with_tuple {
    ($n:expr, $k:expr, $mk:ident, $t:ident => $body:expr) => {
        match $n {
            1 => { let $t = ($mk($k[0]),); $body }
            2 => { let $t = ($mk($k[0]), $mk($k[1])); $body }
            3 => { let $t = ($mk($k[0]), $mk($k[1]), $mk($k[2])); $body }
            4 => { let $t = ($mk($k[0]), $mk($k[1]), $mk($k[2]), $mk($k[3])); $body }
            5 => { let $t = ($mk($k[0]), $mk($k[1]), $mk($k[2]), $mk($k[3]), $mk($k[4])); $body }
            6 => { let $t = ($mk($k[0]), $mk($k[1]), $mk($k[2]), $mk($k[3]), $mk($k[4]), $mk($k[5])); $body }
            7 => { let $t = ($mk($k[0]), $mk($k[1]), $mk($k[2]), $mk($k[3]), $mk($k[4]), $mk($k[5]), $mk($k[6])); $body }
            8 => { let $t = ($mk($k[0]), $mk($k[1]), $mk($k[2]), $mk($k[3]), $mk($k[4]), $mk($k[5]), $mk($k[6]), $mk($k[7])); $body }
            9 => { let $t = ($mk($k[0]), $mk($k[1]), $mk($k[2]), $mk($k[3]), $mk($k[4]), $mk($k[5]), $mk($k[6]), $mk($k[7]), $mk($k[8])); $body }
            10 => { let $t = ($mk($k[0]), $mk($k[1]), $mk($k[2]), $mk($k[3]), $mk($k[4]), $mk($k[5]), $mk($k[6]), $mk($k[7]), $mk($k[8]), $mk($k[9])); $body }
            11 => { let $t = ($mk($k[0]), $mk($k[1]), $mk($k[2]), $mk($k[3]), $mk($k[4]), $mk($k[5]), $mk($k[6]), $mk($k[7]), $mk($k[8]), $mk($k[9]), $mk($k[10])); $body }
            12 => { let $t = ($mk($k[0]), $mk($k[1]), $mk($k[2]), $mk($k[3]), $mk($k[4]), $mk($k[5]), $mk($k[6]), $mk($k[7]), $mk($k[8]), $mk($k[9]), $mk($k[10]), $mk($k[11])); $body }
            other => panic!("harness: unsupported tuple arity {other}"),
        }
    };
}

macro_rules! with_array {
    ($n:expr, $k:expr, $mk:ident, $t:ident => $body:expr) => {
        match $n {
            0 => { let $t: [_; 0] = core::array::from_fn(|i| $mk($k[i])); $body }
            1 => { let $t: [_; 1] = core::array::from_fn(|i| $mk($k[i])); $body }
            2 => { let $t: [_; 2] = core::array::from_fn(|i| $mk($k[i])); $body }
            3 => { let $t: [_; 3] = core::array::from_fn(|i| $mk($k[i])); $body }
            4 => { let $t: [_; 4] = core::array::from_fn(|i| $mk($k[i])); $body }
            5 => { let $t: [_; 5] = core::array::from_fn(|i| $mk($k[i])); $body }
            8 => { let $t: [_; 8] = core::array::from_fn(|i| $mk($k[i])); $body }
            12 => { let $t: [_; 12] = core::array::from_fn(|i| $mk($k[i])); $body }
            23 => { let $t: [_; 23] = core::array::from_fn(|i| $mk($k[i])); $body }
            65 => { let $t: [_; 65] = core::array::from_fn(|i| $mk($k[i])); $body }
            31 => { let $t: [_; 31] = core::array::from_fn(|i| $mk($k[i])); $body }
            256 => { let $t: [_; 256] = core::array::from_fn(|i| $mk($k[i])); $body }
            257 => { let $t: [_; 257] = core::array::from_fn(|i| $mk($k[i])); $body }
            other => panic!("harness: unsupported array length {other}"),
        }
    };
}

pub fn tuple_min(fam: Family) -> usize {
    match fam {
        Family::Join | Family::TryJoin | Family::Merge => 0,
        _ => 1,
    }
}

/// Build a flat combinator of `fam` over leaves `k` in container `cont`.
pub fn build_flat(fam: Family, cont: Cont, k: &[NodeId], plain: bool, unit: bool) -> Box<dyn Root> {
    let n = k.len();
    if unit {
        // future families over children with a zero-sized output type
        return match (fam, cont) {
            (Family::Join, Cont::Tuple) if n == 0 => FutRoot::new(Join::join(())),
            (Family::Join, Cont::Tuple) => with_tuple!(n, k, uf, t => FutRoot::new(Join::join(t)) as Box<dyn Root>),
            (Family::Join, Cont::Array) => with_array!(n, k, uf, t => FutRoot::new(Join::join(t)) as Box<dyn Root>),
            #[cfg(not(feature = "cfg-nostd"))]
            (Family::Join, Cont::Vec) => FutRoot::new(Join::join(k.iter().map(|&i| uf(i)).collect::<Vec<_>>())),
            (Family::TryJoin, Cont::Tuple) if n == 0 => FutRoot::new(TryJoin::try_join(())),
            (Family::TryJoin, Cont::Tuple) => with_tuple!(n, k, utf, t => FutRoot::new(TryJoin::try_join(t)) as Box<dyn Root>),
            (Family::TryJoin, Cont::Array) => with_array!(n, k, utf, t => FutRoot::new(TryJoin::try_join(t)) as Box<dyn Root>),
            #[cfg(not(feature = "cfg-nostd"))]
            (Family::TryJoin, Cont::Vec) => FutRoot::new(TryJoin::try_join(k.iter().map(|&i| utf(i)).collect::<Vec<_>>())),
            (Family::Race, Cont::Tuple) => with_tuple!(n, k, uf, t => FutRoot::new(Race::race(t)) as Box<dyn Root>),
            (Family::Race, Cont::Array) => with_array!(n, k, uf, t => FutRoot::new(Race::race(t)) as Box<dyn Root>),
            #[cfg(not(feature = "cfg-nostd"))]
            (Family::Race, Cont::Vec) => FutRoot::new(Race::race(k.iter().map(|&i| uf(i)).collect::<Vec<_>>())),
            (Family::RaceOk, Cont::Tuple) => with_tuple!(n, k, utf, t => AggRoot::new(RaceOk::race_ok(t)) as Box<dyn Root>),
            (Family::RaceOk, Cont::Array) => with_array!(n, k, utf, t => AggRoot::new(RaceOk::race_ok(t)) as Box<dyn Root>),
            #[cfg(not(feature = "cfg-nostd"))]
            (Family::RaceOk, Cont::Vec) => AggRoot::new(RaceOk::race_ok(k.iter().map(|&i| utf(i)).collect::<Vec<_>>())),
            (fam, cont) => panic!("harness: no unit-output builder for {:?} x {:?} (n={})", fam, cont, n),
        };
    }
    if plain {
        // children without drop glue (future families, tuple arity / array length as for the tracked handles)
        return match (fam, cont) {
            (Family::Join, Cont::Tuple) if n == 0 => FutRoot::new(Join::join(())),
            (Family::Join, Cont::Tuple) => with_tuple!(n, k, pf, t => FutRoot::new(Join::join(t)) as Box<dyn Root>),
            (Family::Join, Cont::Array) => with_array!(n, k, pf, t => FutRoot::new(Join::join(t)) as Box<dyn Root>),
            #[cfg(not(feature = "cfg-nostd"))]
            (Family::Join, Cont::Vec) => FutRoot::new(Join::join(k.iter().map(|&i| pf(i)).collect::<Vec<_>>())),
            (Family::TryJoin, Cont::Tuple) if n == 0 => FutRoot::new(TryJoin::try_join(())),
            (Family::TryJoin, Cont::Tuple) => with_tuple!(n, k, ptf, t => FutRoot::new(TryJoin::try_join(t)) as Box<dyn Root>),
            (Family::TryJoin, Cont::Array) => with_array!(n, k, ptf, t => FutRoot::new(TryJoin::try_join(t)) as Box<dyn Root>),
            #[cfg(not(feature = "cfg-nostd"))]
            (Family::TryJoin, Cont::Vec) => FutRoot::new(TryJoin::try_join(k.iter().map(|&i| ptf(i)).collect::<Vec<_>>())),
            (Family::Race, Cont::Tuple) => with_tuple!(n, k, pf, t => FutRoot::new(Race::race(t)) as Box<dyn Root>),
            (Family::Race, Cont::Array) => with_array!(n, k, pf, t => FutRoot::new(Race::race(t)) as Box<dyn Root>),
            #[cfg(not(feature = "cfg-nostd"))]
            (Family::Race, Cont::Vec) => FutRoot::new(Race::race(k.iter().map(|&i| pf(i)).collect::<Vec<_>>())),
            (Family::RaceOk, Cont::Tuple) => with_tuple!(n, k, ptf, t => AggRoot::new(RaceOk::race_ok(t)) as Box<dyn Root>),
            (Family::RaceOk, Cont::Array) => with_array!(n, k, ptf, t => AggRoot::new(RaceOk::race_ok(t)) as Box<dyn Root>),
            #[cfg(not(feature = "cfg-nostd"))]
            (Family::RaceOk, Cont::Vec) => AggRoot::new(RaceOk::race_ok(k.iter().map(|&i| ptf(i)).collect::<Vec<_>>())),
            // streams of zero-sized items
            (Family::Merge, Cont::Tuple) if n == 0 => StreamRoot::new(Merge::merge(())),
            (Family::Merge, Cont::Tuple) => with_tuple!(n, k, ust, t => StreamRoot::new(Merge::merge(t)) as Box<dyn Root>),
            (Family::Merge, Cont::Array) => with_array!(n, k, ust, t => StreamRoot::new(Merge::merge(t)) as Box<dyn Root>),
            #[cfg(not(feature = "cfg-nostd"))]
            (Family::Merge, Cont::Vec) => StreamRoot::new(Merge::merge(k.iter().map(|&i| ust(i)).collect::<Vec<_>>())),
            (Family::Zip, Cont::Tuple) => with_tuple!(n, k, ust, t => StreamRoot::new(Zip::zip(t)) as Box<dyn Root>),
            (Family::Zip, Cont::Array) => with_array!(n, k, ust, t => StreamRoot::new(Zip::zip(t)) as Box<dyn Root>),
            #[cfg(not(feature = "cfg-nostd"))]
            (Family::Zip, Cont::Vec) => StreamRoot::new(Zip::zip(k.iter().map(|&i| ust(i)).collect::<Vec<_>>())),
            (Family::Chain, Cont::Tuple) => with_tuple!(n, k, ust, t => StreamRoot::new(Chain::chain(t)) as Box<dyn Root>),
            (Family::Chain, Cont::Array) => with_array!(n, k, ust, t => StreamRoot::new(Chain::chain(t)) as Box<dyn Root>),
            #[cfg(not(feature = "cfg-nostd"))]
            (Family::Chain, Cont::Vec) => StreamRoot::new(Chain::chain(k.iter().map(|&i| ust(i)).collect::<Vec<_>>())),
            (fam, cont) => panic!("harness: no plain-handle builder for {:?} x {:?} (n={})", fam, cont, n),
        };
    }
    match (fam, cont) {
        // ---------------- join
        (Family::Join, Cont::Tuple) if n == 0 => FutRoot::new(Join::join(())),
        (Family::Join, Cont::Tuple) => with_tuple!(n, k, f, t => FutRoot::new(Join::join(t)) as Box<dyn Root>),
        (Family::Join, Cont::Array) => with_array!(n, k, f, t => FutRoot::new(Join::join(t)) as Box<dyn Root>),
        (Family::Join, Cont::Ext2) => FutRoot::new(f(k[0]).join(f(k[1]))),
        #[cfg(not(feature = "cfg-nostd"))]
        (Family::Join, Cont::Vec) => FutRoot::new(Join::join(k.iter().map(|&i| f(i)).collect::<Vec<_>>())),
        // ---------------- try_join
        (Family::TryJoin, Cont::Tuple) if n == 0 => FutRoot::new(TryJoin::try_join(())),
        (Family::TryJoin, Cont::Tuple) => with_tuple!(n, k, tf, t => FutRoot::new(TryJoin::try_join(t)) as Box<dyn Root>),
        (Family::TryJoin, Cont::Array) => with_array!(n, k, tf, t => FutRoot::new(TryJoin::try_join(t)) as Box<dyn Root>),
        #[cfg(not(feature = "cfg-nostd"))]
        (Family::TryJoin, Cont::Vec) => FutRoot::new(TryJoin::try_join(k.iter().map(|&i| tf(i)).collect::<Vec<_>>())),
        // ---------------- race
        (Family::Race, Cont::Tuple) => with_tuple!(n, k, f, t => FutRoot::new(Race::race(t)) as Box<dyn Root>),
        (Family::Race, Cont::Array) => with_array!(n, k, f, t => FutRoot::new(Race::race(t)) as Box<dyn Root>),
        (Family::Race, Cont::Ext2) => FutRoot::new(f(k[0]).race(f(k[1]))),
        #[cfg(not(feature = "cfg-nostd"))]
        (Family::Race, Cont::Vec) => FutRoot::new(Race::race(k.iter().map(|&i| f(i)).collect::<Vec<_>>())),
        // ---------------- race_ok
        (Family::RaceOk, Cont::Tuple) => with_tuple!(n, k, tf, t => AggRoot::new(RaceOk::race_ok(t)) as Box<dyn Root>),
        (Family::RaceOk, Cont::Array) => with_array!(n, k, tf, t => AggRoot::new(RaceOk::race_ok(t)) as Box<dyn Root>),
        #[cfg(not(feature = "cfg-nostd"))]
        (Family::RaceOk, Cont::Vec) => AggRoot::new(RaceOk::race_ok(k.iter().map(|&i| tf(i)).collect::<Vec<_>>())),
        // ---------------- merge
        (Family::Merge, Cont::Tuple) if n == 0 => StreamRoot::new(Merge::merge(())),
        (Family::Merge, Cont::Tuple) => with_tuple!(n, k, st, t => StreamRoot::new(Merge::merge(t)) as Box<dyn Root>),
        (Family::Merge, Cont::Array) => with_array!(n, k, st, t => StreamRoot::new(Merge::merge(t)) as Box<dyn Root>),
        (Family::Merge, Cont::Ext2) => StreamRoot::new(st(k[0]).merge(st(k[1]))),
        #[cfg(not(feature = "cfg-nostd"))]
        (Family::Merge, Cont::Vec) => StreamRoot::new(Merge::merge(k.iter().map(|&i| st(i)).collect::<Vec<_>>())),
        // ---------------- zip
        (Family::Zip, Cont::Tuple) => with_tuple!(n, k, st, t => StreamRoot::new(Zip::zip(t)) as Box<dyn Root>),
        (Family::Zip, Cont::Array) => with_array!(n, k, st, t => StreamRoot::new(Zip::zip(t)) as Box<dyn Root>),
        (Family::Zip, Cont::Ext2) => StreamRoot::new(st(k[0]).zip(st(k[1]))),
        #[cfg(not(feature = "cfg-nostd"))]
        (Family::Zip, Cont::Vec) => StreamRoot::new(Zip::zip(k.iter().map(|&i| st(i)).collect::<Vec<_>>())),
        // ---------------- chain
        (Family::Chain, Cont::Tuple) => with_tuple!(n, k, st, t => StreamRoot::new(Chain::chain(t)) as Box<dyn Root>),
        (Family::Chain, Cont::Array) => with_array!(n, k, st, t => StreamRoot::new(Chain::chain(t)) as Box<dyn Root>),
        (Family::Chain, Cont::Ext2) => StreamRoot::new(st(k[0]).chain(st(k[1]))),
        #[cfg(not(feature = "cfg-nostd"))]
        (Family::Chain, Cont::Vec) => StreamRoot::new(Chain::chain(k.iter().map(|&i| st(i)).collect::<Vec<_>>())),
        // ---------------- wait_until: k = [inner, deadline]
        (Family::WaitUntilF, _) if k.len() == 3 => {
            FutRoot::new(f(k[0]).wait_until(SimFut::<()>::new(k[1])).wait_until(SimFut::<()>::new(k[2])))
        }
        (Family::WaitUntilS, _) if k.len() == 3 => {
            StreamRoot::new(st(k[0]).wait_until(SimFut::<()>::new(k[1])).wait_until(SimFut::<()>::new(k[2])))
        }
        (Family::WaitUntilF, _) => FutRoot::new(f(k[0]).wait_until(SimFut::<()>::new(k[1]))),
        (Family::WaitUntilS, _) => StreamRoot::new(st(k[0]).wait_until(SimFut::<()>::new(k[1]))),
        (fam, cont) => panic!("harness: no builder for {:?} x {:?} (n={})", fam, cont, n),
    }
}

/// Is (family, container, n) constructible in this feature configuration?
pub fn supported(fam: Family, cont: Cont, n: usize) -> bool {
    let min = match fam {
        Family::Race | Family::Zip => 1,
        Family::RaceOk | Family::Chain => if cont == Cont::Tuple { 1 } else { 0 },
        _ => 0,
    };
    if n < min {
        return false;
    }
    match cont {
        Cont::Tuple => n <= 12 && n >= tuple_min(fam),
        Cont::Array => ARRAY_SIZES.contains(&n),
        Cont::Vec => !cfg!(feature = "cfg-nostd"),
        Cont::Ext2 => n == 2 && !matches!(fam, Family::TryJoin | Family::RaceOk),
    }
}
