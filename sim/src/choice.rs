//! The single source of nondeterminism of a run: a *choice stream*.
//!
//! Every decision (generation, scheduling, faults) is `draw(label, n)`. In
//! search mode the value comes from SplitMix64 seeded with the run seed; in
//! replay mode it comes from a recorded trace (values are reduced mod `n`, and
//! an exhausted trace yields 0, so *any* trace is a valid run — this is what
//! lets the shrinker delete and zero entries without structure-aware code).

#[derive(Clone)]
pub struct SplitMix64(pub u64);

impl SplitMix64 {
    #[inline]
    pub fn next(&mut self) -> u64 {
        self.0 = self.0.wrapping_add(0x9E37_79B9_7F4A_7C15);
        let mut z = self.0;
        z = (z ^ (z >> 30)).wrapping_mul(0xBF58_476D_1CE4_E5B9);
        z = (z ^ (z >> 27)).wrapping_mul(0x94D0_49BB_1331_11EB);
        z ^ (z >> 31)
    }
}

pub fn mix(a: u64, b: u64) -> u64 {
    let mut s = SplitMix64(a ^ b.wrapping_mul(0xD6E8_FEB8_6659_FD93));
    s.next()
}

pub fn fnv(s: &str) -> u64 {
    let mut h: u64 = 0xcbf2_9ce4_8422_2325;
    for b in s.bytes() {
        h ^= b as u64;
        h = h.wrapping_mul(0x0000_0100_0000_01B3);
    }
    h
}

pub enum Source {
    Rng(SplitMix64),
    Replay { trace: Vec<u32>, pos: usize },
}

pub struct Choices {
    src: Source,
    /// (label, value) of every draw made in this run.
    pub trace: Vec<(&'static str, u32)>,
    pub record_labels: bool,
}

impl Choices {
    pub fn from_seed(seed: u64) -> Self {
        Choices {
            src: Source::Rng(SplitMix64(seed)),
            trace: Vec::with_capacity(256),
            record_labels: true,
        }
    }
    pub fn from_trace(trace: Vec<u32>) -> Self {
        Choices {
            src: Source::Replay { trace, pos: 0 },
            trace: Vec::with_capacity(256),
            record_labels: true,
        }
    }
    /// A value in `0..n` (`n >= 1`). Value 0 is always the "simplest" option.
    #[inline]
    pub fn draw(&mut self, label: &'static str, n: u32) -> u32 {
        debug_assert!(n >= 1);
        let v = match &mut self.src {
            Source::Rng(r) => {
                if n <= 1 {
                    // still consume, so traces keep positional meaning
                    r.next();
                    0
                } else {
                    (r.next() % n as u64) as u32
                }
            }
            Source::Replay { trace, pos } => {
                let v = trace.get(*pos).copied().unwrap_or(0);
                *pos += 1;
                if n <= 1 {
                    0
                } else {
                    v % n
                }
            }
        };
        self.trace.push((label, v));
        v
    }
    /// true with probability num/den.
    #[inline]
    pub fn chance(&mut self, label: &'static str, num: u32, den: u32) -> bool {
        if num == 0 {
            // no draw: a disabled fault kind must not perturb the stream shape
            return false;
        }
        // value 0 must be the "no fault" outcome
        let v = self.draw(label, den);
        v >= den - num.min(den)
    }
    pub fn values(&self) -> Vec<u32> {
        self.trace.iter().map(|x| x.1).collect()
    }
}
