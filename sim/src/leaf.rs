//! Harness objects handed to the code under test: tracked values, scripted
//! leaf futures/streams, probe wrappers around inner combinators, wakers.
//! All of them are plain integers plus a `Drop` that reports to the world.

use crate::world::{self, with, FireCtx, NodeId, Res, Step, Terminal, Wake as WakeMode, World, Ev};
use futures_core::Stream;
use std::any::Any;
use std::future::Future;
use std::marker::PhantomData;
use std::panic::{catch_unwind, AssertUnwindSafe};
use std::pin::Pin;
use std::sync::Arc;
use std::task::{Context, Poll, Wake, Waker};

// ------------------------------------------------------------------ panics

pub struct InjectedPanic;
pub struct SelfDeadlock;
/// thrown by a leaf when one run has produced an absurd number of events (endless loop inside a poll)
pub struct LogOverflow;
pub const LOG_LIMIT: usize = 150_000;

thread_local! {
    pub static LAST_PANIC: std::cell::RefCell<String> = const { std::cell::RefCell::new(String::new()) };
}

pub fn install_panic_hook() {
    std::panic::set_hook(Box::new(|info| {
        let msg = if info.payload().is::<InjectedPanic>() {
            "<injected>".to_string()
        } else if info.payload().is::<SelfDeadlock>() {
            "<self-deadlock>".to_string()
        } else if info.payload().is::<LogOverflow>() {
            "<log overflow>".to_string()
        } else if let Some(s) = info.payload().downcast_ref::<&str>() {
            s.to_string()
        } else if let Some(s) = info.payload().downcast_ref::<String>() {
            s.clone()
        } else {
            "<non-string panic>".to_string()
        };
        let loc = info.location().map(|l| format!(" at {}:{}", l.file(), l.line())).unwrap_or_default();
        LAST_PANIC.with(|p| *p.borrow_mut() = format!("{msg}{loc}"));
        if std::env::var_os("VERIF_VERBOSE").is_some() {
            eprintln!("panic: {msg}{loc}");
        }
    }));
}

pub enum Caught {
    Injected,
    Deadlock,
    Overflow,
    Other(String),
}

pub fn classify(p: Box<dyn Any + Send>) -> Caught {
    if p.is::<InjectedPanic>() {
        Caught::Injected
    } else if p.is::<SelfDeadlock>() {
        Caught::Deadlock
    } else if p.is::<LogOverflow>() {
        Caught::Overflow
    } else {
        Caught::Other(LAST_PANIC.with(|p| p.borrow().clone()))
    }
}

// ------------------------------------------------------------------ values

#[derive(Debug)]
pub struct Val {
    pub id: u32,
    pub canary: u32,
}

impl Val {
    pub fn new(w: &mut World, by: NodeId) -> Val {
        let id = w.val_new(by);
        Val { id, canary: World::canary(id) }
    }
    pub fn from_id(id: u32) -> Val {
        Val { id, canary: World::canary(id) }
    }
    pub fn forget(self) -> (u32, u32) {
        let r = (self.id, self.canary);
        std::mem::forget(self);
        r
    }
}

impl Drop for Val {
    fn drop(&mut self) {
        let (id, canary) = (self.id, self.canary);
        with(|w| w.val_dropped(id, canary));
    }
}

/// A zero-sized item (streams of `()`-like ticks). It cannot carry an identity: the leaf that "produces" it books a
/// virtual value for the models, and a harvested `Unit` shows up as `UNIT_ID` (so that row lengths stay checkable).
#[derive(Debug)]
pub struct Unit;
pub const UNIT_ID: u32 = u32::MAX - 1;
impl Harvest for Unit {
    fn harvest(&self, out: &mut Vec<(u32, u32)>) {
        out.push((UNIT_ID, 0));
    }
}

/// What the harness reads out of a root result before dropping it.
pub trait Harvest {
    fn harvest(&self, out: &mut Vec<(u32, u32)>);
    fn tag(&self) -> Option<Res> {
        None
    }
    fn key(&self) -> Option<usize> {
        None
    }
}

impl Harvest for Val {
    fn harvest(&self, out: &mut Vec<(u32, u32)>) {
        out.push((self.id, self.canary));
    }
}
impl Harvest for () {
    fn harvest(&self, _out: &mut Vec<(u32, u32)>) {}
}
impl Harvest for core::convert::Infallible {
    fn harvest(&self, _out: &mut Vec<(u32, u32)>) {}
}
impl<T: Harvest, const N: usize> Harvest for [T; N] {
    fn harvest(&self, out: &mut Vec<(u32, u32)>) {
        for t in self {
            t.harvest(out);
        }
    }
}
/// A container whose length is absurd (a `Vec` of zero-sized items built with a wrong `set_len`): one marker entry
/// instead of walking it.
pub const OVERSIZE_ID: u32 = u32::MAX - 2;
impl<T: Harvest> Harvest for Vec<T> {
    fn harvest(&self, out: &mut Vec<(u32, u32)>) {
        if self.len() > 1_000_000 {
            out.push((OVERSIZE_ID, 0));
            return;
        }
        for t in self {
            t.harvest(out);
        }
    }
}
impl<T: Harvest, E: Harvest> Harvest for Result<T, E> {
    fn harvest(&self, out: &mut Vec<(u32, u32)>) {
        match self {
            Ok(t) => t.harvest(out),
            Err(e) => e.harvest(out),
        }
    }
    fn tag(&self) -> Option<Res> {
        Some(if self.is_ok() { Res::Ok } else { Res::Err })
    }
}
macro_rules! harvest_tuple {
    ($($T:ident)+) => {
        #[allow(non_snake_case)]
        impl<$($T: Harvest),+> Harvest for ($($T,)+) {
            fn harvest(&self, out: &mut Vec<(u32, u32)>) {
                let ($($T,)+) = self;
                $( $T.harvest(out); )+
            }
        }
    };
}
harvest_tuple!(A);
harvest_tuple!(A B);
harvest_tuple!(A B C);
harvest_tuple!(A B C D);
harvest_tuple!(A B C D E);
harvest_tuple!(A B C D E F);
harvest_tuple!(A B C D E F G);
harvest_tuple!(A B C D E F G H);
harvest_tuple!(A B C D E F G H I);
harvest_tuple!(A B C D E F G H I J);
harvest_tuple!(A B C D E F G H I J K);
harvest_tuple!(A B C D E F G H I J K L);

/// A keyed item `(key, value)` coming out of a keyed group.
pub struct KeyedItem<T>(pub usize, pub T);
impl<T: Harvest> Harvest for KeyedItem<T> {
    fn harvest(&self, out: &mut Vec<(u32, u32)>) {
        self.1.harvest(out)
    }
    fn key(&self) -> Option<usize> {
        Some(self.0)
    }
}

/// Wrapper for aggregate errors (anything that derefs to a slice of `Val`).
pub struct Agg<'a>(pub &'a [Val]);

/// Output of one root poll, normalised.
#[derive(Debug, Clone)]
pub struct Out {
    pub res: Res,
    pub key: Option<usize>,
    pub vals: Vec<u32>,
    pub bogus: bool,
}

impl Out {
    pub fn pending() -> Out {
        Out { res: Res::Pending, key: None, vals: Vec::new(), bogus: false }
    }
    pub fn none() -> Out {
        Out { res: Res::None, key: None, vals: Vec::new(), bogus: false }
    }
}

/// Read ids out of `v`, tell the world they were returned, then drop `v`.
pub fn harvest_out<T: Harvest>(v: T, base: Res) -> Out {
    let mut ids = Vec::new();
    v.harvest(&mut ids);
    let res = v.tag().unwrap_or(base);
    let key = v.key();
    let mut bogus = false;
    with(|w| {
        for &(id, canary) in &ids {
            if id == UNIT_ID {
                continue;
            }
            if id == OVERSIZE_ID {
                bogus = true;
                w.flag("c02.val_bogus", || "the combinator returned a container with more than a million elements".to_string());
                continue;
            }
            if !w.val_returned(id, canary) {
                bogus = true;
            }
        }
    });
    drop(v);
    Out { res, key, vals: ids.iter().map(|x| x.0).collect(), bogus }
}

// ------------------------------------------------------------------ leaf outputs

pub trait LeafOut: Sized {
    fn make(w: &mut World, node: NodeId, err: bool, held: &mut Option<Val>) -> (Self, Res, Option<u32>);
}
impl LeafOut for Val {
    fn make(w: &mut World, node: NodeId, _err: bool, _h: &mut Option<Val>) -> (Self, Res, Option<u32>) {
        let v = Val::new(w, node);
        let id = v.id;
        (v, Res::Ready, Some(id))
    }
}
impl LeafOut for Result<Val, Val> {
    fn make(w: &mut World, node: NodeId, err: bool, _h: &mut Option<Val>) -> (Self, Res, Option<u32>) {
        let v = Val::new(w, node);
        let id = v.id;
        if err {
            (Err(v), Res::Err, Some(id))
        } else {
            (Ok(v), Res::Ok, Some(id))
        }
    }
}
impl LeafOut for Unit {
    fn make(w: &mut World, node: NodeId, _err: bool, _h: &mut Option<Val>) -> (Self, Res, Option<u32>) {
        // a virtual value for the models; nobody can return or drop it
        let v = w.val_new(node);
        w.vals[v as usize].untracked = true;
        (Unit, Res::Ready, Some(v))
    }
}
impl LeafOut for Result<Unit, Val> {
    fn make(w: &mut World, node: NodeId, err: bool, _h: &mut Option<Val>) -> (Self, Res, Option<u32>) {
        if err {
            let v = Val::new(w, node);
            let id = v.id;
            (Err(v), Res::Err, Some(id))
        } else {
            let v = w.val_new(node);
            w.vals[v as usize].untracked = true;
            (Ok(Unit), Res::Ok, Some(v))
        }
    }
}
impl LeafOut for () {
    fn make(_w: &mut World, _node: NodeId, _err: bool, _h: &mut Option<Val>) -> (Self, Res, Option<u32>) {
        ((), Res::Ready, None)
    }
}
impl LeafOut for Result<(), Val> {
    fn make(w: &mut World, node: NodeId, err: bool, _h: &mut Option<Val>) -> (Self, Res, Option<u32>) {
        if err {
            let v = Val::new(w, node);
            let id = v.id;
            (Err(v), Res::Err, Some(id))
        } else {
            (Ok(()), Res::Ok, None)
        }
    }
}

// ------------------------------------------------------------------ wakers

pub struct TaskWaker {
    pub gen: u32,
}
impl Wake for TaskWaker {
    fn wake(self: Arc<Self>) {
        let g = self.gen;
        with(|w| w.task_wake(g));
    }
    fn wake_by_ref(self: &Arc<Self>) {
        let g = self.gen;
        with(|w| w.task_wake(g));
    }
}
pub fn task_waker(gen: u32) -> Waker {
    Waker::from(Arc::new(TaskWaker { gen }))
}

/// Waker handed by a probe to the inner combinator it wraps: records that the
/// inner combinator notified its parent, then forwards.
pub struct ProbeWaker {
    node: NodeId,
    wid: u32,
    inner: Waker,
}
impl Wake for ProbeWaker {
    fn wake(self: Arc<Self>) {
        self.wake_by_ref()
    }
    fn wake_by_ref(self: &Arc<Self>) {
        let (node, wid) = (self.node, self.wid);
        with(|w| w.note_fire(node, wid, None, true));
        self.inner.wake_by_ref();
        with(|w| crate::oracle::after_fire(w, node));
    }
}

/// What to fire.
#[derive(Clone, Copy, Debug)]
pub enum Which {
    Cur,
    /// index into the node's `handed` list
    Handed(usize),
}

/// Invoke a waker that was handed to leaf `node`. Never called with the world borrowed.
pub fn fire(node: NodeId, which: Which, ctx: FireCtx) {
    let got = with(|w| {
        let by_ref = !w.ch.chance("fire.by_value", w.knobs.p_by_value, 16);
        let n = w.node(node);
        let entry = match which {
            Which::Cur => n.handed.iter().find(|h| h.0 == n.cur_wid),
            Which::Handed(i) => n.handed.get(i),
        };
        let (wid, wk) = match entry {
            Some((wid, wk)) => (*wid, wk.clone()),
            None => return None,
        };
        w.note_fire(node, wid, Some(ctx), by_ref);
        w.in_fire += 1;
        Some((wk, by_ref))
    });
    let Some((wk, by_ref)) = got else { return };
    let r = catch_unwind(AssertUnwindSafe(move || {
        if by_ref {
            wk.wake_by_ref();
            drop(wk);
        } else {
            wk.wake();
        }
    }));
    let caught = r.err().map(classify);
    with(|w| {
        w.in_fire -= 1;
        match caught {
            None => {}
            Some(Caught::Deadlock) => {
                w.emit(Ev::Caught { whence: "waker: self-deadlock" });
                w.flag("c01.deadlock", || format!("invoking a waker of n{node} blocks on a lock the poller holds"));
            }
            Some(Caught::Injected) | Some(Caught::Overflow) => {}
            Some(Caught::Other(m)) => {
                w.emit(Ev::Caught { whence: "waker: panic" });
                if crate::exec::PANIC_IS_VIOLATION.contains(&w.prop) {
                    w.flag_current("wake_panic", || format!("invoking a waker of n{node} panicked: {m}"));
                }
            }
        }
        crate::oracle::after_fire(w, node);
    });
}

impl World {
    /// Bookkeeping for an invocation of waker `wid` of `node`.
    pub fn note_fire(&mut self, node: NodeId, wid: u32, ctx: Option<FireCtx>, by_ref: bool) {
        let ctx = ctx.unwrap_or_else(|| self.current_ctx());
        let n = &mut self.nodes[node as usize];
        let most_recent = wid == n.cur_wid;
        if most_recent && n.fired_cur && n.last == Some(Res::Pending) && !n.in_poll {
            // the child's readiness bit is (should be) still set from an earlier wake
            self.stats.p_bit_already_set += 1;
        }
        let n = &mut self.nodes[node as usize];
        n.fired_any = true;
        if most_recent {
            n.fired_cur = true;
        }
        let (parent, key) = (n.parent, n.key);
        self.stats.wakes += 1;
        if !matches!(ctx, FireCtx::Between) {
            self.nontrivial_wake = true;
        }
        self.emit(Ev::WakeFired { node, wid, most_recent, ctx, by_ref });
        // group slot reuse: a waker of an earlier holder of the same key re-arms the current holder
        // (members that entered through Extend have a key the harness does not know: be conservative)
        let in_group = parent != world::NO_NODE
            && matches!(self.nodes[parent as usize].fam, world::Family::FutGroup | world::Family::StreamGroup);
        if in_group {
            let sibs = self.nodes[parent as usize].children.clone();
            for s in sibs {
                let m = &mut self.nodes[s as usize];
                if s != node && (key.is_none() || m.key.is_none() || m.key == key) {
                    m.fired_any = true;
                }
            }
        }
    }

    pub fn current_ctx(&self) -> FireCtx {
        if !self.root_alive {
            return FireCtx::AfterRootDrop;
        }
        if self.root_done {
            return FireCtx::AfterRootDone;
        }
        // innermost node in poll
        for (i, n) in self.nodes.iter().enumerate().rev() {
            if n.in_poll && n.is_leaf() {
                return FireCtx::InPollOf(i as NodeId);
            }
        }
        if self.nodes[world::ROOT as usize].in_poll {
            return FireCtx::AtLock;
        }
        FireCtx::Between
    }

    /// Common part of every poll of a node (leaf or probe).
    pub fn poll_begin(&mut self, id: NodeId, waker: &Waker) {
        crate::oracle::on_poll_begin(self, id);
        let is_leaf = self.nodes[id as usize].is_leaf();
        let n = &mut self.nodes[id as usize];
        let found = n.handed.iter().position(|h| h.1.will_wake(waker));
        let wid = match found {
            Some(i) => n.handed[i].0,
            None => {
                let wid = self.next_wid;
                self.next_wid += 1;
                let cap = if is_leaf { 4 } else { 2 };
                if n.handed.len() >= cap {
                    n.handed.remove(0);
                }
                n.handed.push((wid, waker.clone()));
                wid
            }
        };
        let changed = wid != n.cur_wid;
        if n.self_woke && n.last == Some(Res::Pending) {
            self.stats.p_repoll_after_selfwake += 1;
        }
        let n = &mut self.nodes[id as usize];
        n.self_woke = false;
        n.cur_wid = wid;
        n.fired_cur = false;
        n.fired_any = false;
        n.in_poll = true;
        n.polls += 1;
        n.frame.clear();
        if changed {
            self.emit(Ev::WakerHanded { node: id, wid });
        }
        self.emit(Ev::PollBegin { node: id, gen: 0 });
        self.stats.child_polls += 1;
    }

    pub fn poll_end(&mut self, id: NodeId, res: Res, val: Option<u32>) {
        let n = &mut self.nodes[id as usize];
        n.in_poll = false;
        n.last = Some(res);
        if res.is_final() {
            n.done = true;
            n.final_val = val;
        }
        if res == Res::Pending {
            self.nontrivial_pending = true;
        }
        let parent = n.parent;
        self.emit(Ev::PollEnd { node: id, res, val });
        if parent != world::NO_NODE {
            self.nodes[parent as usize].frame.push((id, res, val));
        }
        crate::oracle::on_poll_end(self, id, res, val);
    }
}

pub struct LeafAct {
    step: Option<Step>,
    term: Terminal,
    fires: Vec<NodeId>,
    panic: bool,
}

impl LeafAct {
    pub fn step(&self) -> Option<Step> {
        self.step
    }
}

impl World {
    fn leaf_poll(&mut self, id: NodeId, waker: &Waker) -> LeafAct {
        self.poll_begin(id, waker);
        self.child_poll_counter += 1;
        let mut panic = false;
        if self.panic_at_child_poll != 0 && self.child_poll_counter == self.panic_at_child_poll {
            panic = true;
        }
        let n = &mut self.nodes[id as usize];
        let step = if n.pos < n.script.len() {
            let s = n.script[n.pos];
            n.pos += 1;
            Some(s)
        } else {
            None
        };
        let term = n.term;
        if matches!(step, Some(Step::Panic)) {
            panic = true;
        }
        if panic {
            self.stats.f_panic += 1;
            self.emit(Ev::Fault { what: "panic in child poll", arg: id });
            let n = &mut self.nodes[id as usize];
            n.in_poll = false;
            n.last = Some(Res::Panic);
            n.done = true; // a future that panicked must not be polled again
            self.emit(Ev::PollEnd { node: id, res: Res::Panic, val: None });
            return LeafAct { step, term, fires: Vec::new(), panic: true };
        }
        if let Some(Step::Pend(WakeMode::Later(d))) = step {
            self.schedule_wake(id, d);
        }
        // in-poll injection: deliver queued readiness events "from another thread" during this poll
        let mut fires = Vec::new();
        if !self.suppress_faults && self.knobs.p_inpoll > 0 {
            let mut budget = 2;
            while budget > 0 && !self.events.is_empty() && self.ch.chance("inpoll.inject", self.knobs.p_inpoll, 16) {
                let i = self.ch.draw("inpoll.which", self.events.len() as u32) as usize;
                let ev = self.events.remove(i);
                self.nodes[ev.node as usize].pending_events -= 1;
                fires.push(ev.node);
                self.stats.f_inpoll += 1;
                budget -= 1;
            }
        }
        LeafAct { step, term, fires, panic: false }
    }
}

pub fn leaf_poll_common(id: NodeId, cx: &mut Context<'_>) -> LeafAct {
    if with(|w| w.log.len() > LOG_LIMIT.max(w.log_limit)) {
        std::panic::panic_any(LogOverflow);
    }
    let act = with(|w| w.leaf_poll(id, cx.waker()));
    if act.panic {
        std::panic::panic_any(InjectedPanic);
    }
    for &n in &act.fires {
        fire(n, Which::Cur, FireCtx::InPollOf(id));
    }
    if let Some(Step::Pend(WakeMode::SelfNow)) = act.step {
        with(|w| {
            w.stats.f_selfnow += 1;
            w.node_mut(id).self_woke = true;
        });
        fire(id, Which::Cur, FireCtx::InPollOf(id));
    }
    act
}

/// Drop of a leaf handle: record it; then, if the leaf was drawn to do so, invoke a waker from the destructor
/// (F14 — e.g. a channel sender whose drop wakes the receiver). Never while unwinding.
pub fn leaf_dropped(id: NodeId) {
    let target = with(|w| {
        w.node_dropped(id);
        if std::thread::panicking() {
            None
        } else {
            w.drop_wake_target(id).map(|t| (t, w.current_ctx()))
        }
    });
    if let Some((t, ctx)) = target {
        fire(t, Which::Cur, ctx);
    }
}

// ------------------------------------------------------------------ leaf future

pub struct SimFut<O> {
    pub node: NodeId,
    pub held: Option<Val>,
    _p: PhantomData<fn() -> O>,
}

impl<O> SimFut<O> {
    pub fn new(node: NodeId) -> Self {
        SimFut { node, held: None, _p: PhantomData }
    }
    pub fn holding(node: NodeId, v: Val) -> Self {
        SimFut { node, held: Some(v), _p: PhantomData }
    }
}

impl<O> Drop for SimFut<O> {
    fn drop(&mut self) {
        leaf_dropped(self.node);
    }
}

impl<O: LeafOut> Future for SimFut<O> {
    type Output = O;
    fn poll(mut self: Pin<&mut Self>, cx: &mut Context<'_>) -> Poll<O> {
        let id = self.node;
        let act = leaf_poll_common(id, cx);
        let err = match act.step {
            Some(Step::Ready { err }) => Some(err),
            Some(Step::Item) | Some(Step::End) => Some(false),
            Some(Step::Pend(_)) => None,
            Some(Step::Panic) => unreachable!(),
            None => None, // script exhausted without completion: never ready
        };
        match err {
            None => {
                with(|w| w.poll_end(id, Res::Pending, None));
                Poll::Pending
            }
            Some(err) => {
                let mut held = self.held.take();
                let out = with(|w| {
                    let fallible = w.node(id).fallible;
                    let (o, res, val) = O::make(w, id, err && fallible, &mut held);
                    w.poll_end(id, res, val);
                    o
                });
                drop(held);
                Poll::Ready(out)
            }
        }
    }
}

/// A leaf future handle *without drop glue* (no `Drop` impl, only plain-old-data fields): the code under test
/// may legitimately skip "dropping" it, and a destructor gated on `mem::needs_drop::<Fut>()` takes its other branch.
/// Its drops cannot be observed (the node is marked `untracked_drop`); its outputs are tracked as usual.
pub struct PlainFut<O> {
    pub node: NodeId,
    _p: PhantomData<fn() -> O>,
}
impl<O> PlainFut<O> {
    pub fn new(node: NodeId) -> Self {
        PlainFut { node, _p: PhantomData }
    }
}
impl<O: LeafOut> Future for PlainFut<O> {
    type Output = O;
    fn poll(self: Pin<&mut Self>, cx: &mut Context<'_>) -> Poll<O> {
        let id = self.node;
        let act = leaf_poll_common(id, cx);
        let err = match act.step {
            Some(Step::Ready { err }) => Some(err),
            Some(Step::Item) | Some(Step::End) => Some(false),
            _ => None,
        };
        match err {
            None => {
                with(|w| w.poll_end(id, Res::Pending, None));
                Poll::Pending
            }
            Some(err) => {
                let mut held = None;
                let out = with(|w| {
                    let fallible = w.node(id).fallible;
                    let (o, res, val) = O::make(w, id, err && fallible, &mut held);
                    w.poll_end(id, res, val);
                    o
                });
                Poll::Ready(out)
            }
        }
    }
}

// ------------------------------------------------------------------ leaf stream

pub struct SimStream {
    pub node: NodeId,
}
impl SimStream {
    pub fn new(node: NodeId) -> Self {
        SimStream { node }
    }
}
/// `StreamGroup<S>: Default` is derived and therefore asks for `S: Default`; no member is ever created through it.
impl Default for SimStream {
    fn default() -> Self {
        unreachable!("a group constructor must not create members")
    }
}
impl Drop for SimStream {
    fn drop(&mut self) {
        leaf_dropped(self.node);
    }
}
impl Stream for SimStream {
    type Item = Val;
    fn poll_next(self: Pin<&mut Self>, cx: &mut Context<'_>) -> Poll<Option<Val>> {
        let id = self.node;
        let act = leaf_poll_common(id, cx);
        enum K {
            Pend,
            Item,
            End,
        }
        let k = match act.step {
            Some(Step::Item) | Some(Step::Ready { .. }) => K::Item,
            Some(Step::End) => K::End,
            Some(Step::Pend(_)) => K::Pend,
            Some(Step::Panic) => unreachable!(),
            None => match act.term {
                Terminal::Forever => K::Item,
                Terminal::Never => K::Pend,
                // polled again after End: keep saying None (the poll itself is flagged by C03)
                Terminal::Finished => K::End,
            },
        };
        match k {
            K::Pend => {
                with(|w| w.poll_end(id, Res::Pending, None));
                Poll::Pending
            }
            K::Item => {
                let v = with(|w| {
                    let v = Val::new(w, id);
                    w.poll_end(id, Res::Some, Some(v.id));
                    v
                });
                Poll::Ready(Some(v))
            }
            K::End => {
                with(|w| w.poll_end(id, Res::None, None));
                Poll::Ready(None)
            }
        }
    }
}

/// Stream leaf whose items are zero-sized.
pub struct UnitStream {
    pub node: NodeId,
}
impl UnitStream {
    pub fn new(node: NodeId) -> Self {
        UnitStream { node }
    }
}
impl Drop for UnitStream {
    fn drop(&mut self) {
        leaf_dropped(self.node);
    }
}
impl Stream for UnitStream {
    type Item = Unit;
    fn poll_next(self: Pin<&mut Self>, cx: &mut Context<'_>) -> Poll<Option<Unit>> {
        let id = self.node;
        let act = leaf_poll_common(id, cx);
        let k = match act.step {
            Some(Step::Item) | Some(Step::Ready { .. }) => 1,
            Some(Step::End) => 2,
            Some(Step::Pend(_)) => 0,
            Some(Step::Panic) => unreachable!(),
            None => match act.term {
                Terminal::Forever => 1,
                Terminal::Never => 0,
                Terminal::Finished => 2,
            },
        };
        match k {
            0 => {
                with(|w| w.poll_end(id, Res::Pending, None));
                Poll::Pending
            }
            1 => {
                with(|w| {
                    // a virtual value: the models need something to count, nobody can return or drop it
                    let v = w.val_new(id);
                    w.vals[v as usize].untracked = true;
                    w.poll_end(id, Res::Some, Some(v));
                });
                Poll::Ready(Some(Unit))
            }
            _ => {
                with(|w| w.poll_end(id, Res::None, None));
                Poll::Ready(None)
            }
        }
    }
}

// ------------------------------------------------------------------ probes (inner combinators)

/// Turns the output of an inner combinator into the uniform leaf output type.
pub trait Compose {
    type Out;
    fn compose(self, node: NodeId) -> (Self::Out, Res, Option<u32>);
}

fn compose_parts<T: Harvest>(t: T, node: NodeId) -> Val {
    let mut ids = Vec::new();
    t.harvest(&mut ids);
    // the parts now live inside the composite
    std::mem::forget(t);
    with(|w| {
        let id = w.val_compose(node, ids.iter().map(|x| x.0).collect());
        Val::from_id(id)
    })
}

macro_rules! compose_plain {
    ($($t:ty),*) => { $(
        impl Compose for $t {
            type Out = Val;
            fn compose(self, node: NodeId) -> (Val, Res, Option<u32>) {
                let v = compose_parts(self, node);
                let id = v.id;
                (v, Res::Ready, Some(id))
            }
        }
    )* };
}
impl Compose for Val {
    type Out = Val;
    fn compose(self, _node: NodeId) -> (Val, Res, Option<u32>) {
        let id = self.id;
        (self, Res::Ready, Some(id))
    }
}
impl<const N: usize> Compose for [Val; N] {
    type Out = Val;
    fn compose(self, node: NodeId) -> (Val, Res, Option<u32>) {
        // note: forgetting an array of Val forgets each element
        let v = compose_parts(self, node);
        let id = v.id;
        (v, Res::Ready, Some(id))
    }
}
compose_plain!((Val,), (Val, Val), (Val, Val, Val), (Val, Val, Val, Val));
impl Compose for Vec<Val> {
    type Out = Val;
    fn compose(mut self, node: NodeId) -> (Val, Res, Option<u32>) {
        // drain instead of forgetting the Vec (which would leak its buffer)
        let ids: Vec<u32> = self.drain(..).map(|v| v.forget().0).collect();
        let id = with(|w| w.val_compose(node, ids));
        (Val::from_id(id), Res::Ready, Some(id))
    }
}
impl<T: Compose<Out = Val>> Compose for Result<T, Val> {
    type Out = Result<Val, Val>;
    fn compose(self, node: NodeId) -> (Result<Val, Val>, Res, Option<u32>) {
        match self {
            Ok(t) => {
                let (v, _, id) = t.compose(node);
                (Ok(v), Res::Ok, id)
            }
            Err(e) => {
                let id = e.id;
                (Err(e), Res::Err, Some(id))
            }
        }
    }
}

/// `Vec<Val>` leaks its buffer when forgotten; acceptable for a harness (bounded per run)
/// but avoid it: composite creation for Vec drains instead.
pub struct Probe<T> {
    pub node: NodeId,
    inner: T,
    wrapped: Option<(Waker, Waker)>,
}

impl<T> Probe<T> {
    pub fn new(node: NodeId, inner: T) -> Self {
        Probe { node, inner, wrapped: None }
    }
    fn wrap(&mut self, incoming: &Waker) -> Waker {
        if let Some((inc, wr)) = &self.wrapped {
            if inc.will_wake(incoming) {
                return wr.clone();
            }
        }
        let node = self.node;
        let wid = with(|w| w.node(node).cur_wid);
        let wr = Waker::from(Arc::new(ProbeWaker { node, wid, inner: incoming.clone() }));
        self.wrapped = Some((incoming.clone(), wr.clone()));
        wr
    }
}

impl<T> Drop for Probe<T> {
    fn drop(&mut self) {
        let id = self.node;
        with(|w| w.node_dropped(id));
    }
}

impl<T: Unpin> Unpin for Probe<T> {}

impl<F: Future + Unpin> Future for Probe<F>
where
    F::Output: Compose,
{
    type Output = <F::Output as Compose>::Out;
    fn poll(mut self: Pin<&mut Self>, cx: &mut Context<'_>) -> Poll<Self::Output> {
        let id = self.node;
        with(|w| w.poll_begin(id, cx.waker()));
        let wk = self.wrap(cx.waker());
        let mut icx = Context::from_waker(&wk);
        match Pin::new(&mut self.inner).poll(&mut icx) {
            Poll::Pending => {
                with(|w| w.poll_end(id, Res::Pending, None));
                Poll::Pending
            }
            Poll::Ready(o) => {
                let (o, res, val) = o.compose(id);
                with(|w| w.poll_end(id, res, val));
                Poll::Ready(o)
            }
        }
    }
}

/// Stream probe; items are composed to a single `Val`.
pub struct SProbe<T>(pub Probe<T>);
impl<T> SProbe<T> {
    pub fn new(node: NodeId, inner: T) -> Self {
        SProbe(Probe::new(node, inner))
    }
}
impl<S: Stream + Unpin> Stream for SProbe<S>
where
    S::Item: Compose<Out = Val>,
{
    type Item = Val;
    fn poll_next(mut self: Pin<&mut Self>, cx: &mut Context<'_>) -> Poll<Option<Val>> {
        let id = self.0.node;
        with(|w| w.poll_begin(id, cx.waker()));
        let wk = self.0.wrap(cx.waker());
        let mut icx = Context::from_waker(&wk);
        match Pin::new(&mut self.0.inner).poll_next(&mut icx) {
            Poll::Pending => {
                with(|w| w.poll_end(id, Res::Pending, None));
                Poll::Pending
            }
            Poll::Ready(None) => {
                with(|w| w.poll_end(id, Res::None, None));
                Poll::Ready(None)
            }
            Poll::Ready(Some(o)) => {
                let (o, _res, val) = o.compose(id);
                with(|w| w.poll_end(id, Res::Some, val));
                Poll::Ready(Some(o))
            }
        }
    }
}

// ------------------------------------------------------------------ sync hook (lock boundaries)

#[cfg(feature = "cfg-std")]
pub fn sync_hook(p: futures_concurrency::__verif_sync::SyncPoint) {
    use futures_concurrency::__verif_sync::SyncPoint;
    if !world::has_world() {
        return;
    }
    match p {
        SyncPoint::BeforeLock => {
            let target = with(|w| {
                if w.suppress_faults
                    || w.in_fire > 0
                    || !w.root_alive
                    || w.knobs.p_lock == 0
                    || w.events.is_empty()
                    || !w.nodes[world::ROOT as usize].in_poll && !w.in_group_op
                {
                    return None;
                }
                if !w.ch.chance("lock.inject", w.knobs.p_lock, 16) {
                    return None;
                }
                let i = w.ch.draw("lock.which", w.events.len() as u32) as usize;
                let ev = w.events.remove(i);
                w.nodes[ev.node as usize].pending_events -= 1;
                w.stats.f_lock += 1;
                Some(ev.node)
            });
            if let Some(n) = target {
                fire(n, Which::Cur, FireCtx::AtLock);
            }
        }
        SyncPoint::WouldBlock => {
            with(|w| w.emit(Ev::Fault { what: "relock by the owning thread", arg: 0 }));
            std::panic::panic_any(SelfDeadlock);
        }
    }
}
