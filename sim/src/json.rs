//! Minimal JSON: string escaping for output, and a tiny parser for replay files.

pub fn s(x: &str) -> String {
    let mut o = String::with_capacity(x.len() + 2);
    o.push('"');
    for c in x.chars() {
        match c {
            '"' => o.push_str("\\\""),
            '\\' => o.push_str("\\\\"),
            '\n' => o.push_str("\\n"),
            '\r' => o.push_str("\\r"),
            '\t' => o.push_str("\\t"),
            c if (c as u32) < 0x20 => o.push_str(&format!("\\u{:04x}", c as u32)),
            c => o.push(c),
        }
    }
    o.push('"');
    o
}

#[derive(Debug, Clone)]
pub enum J {
    Null,
    Bool(bool),
    Num(f64),
    Int(i128),
    Str(String),
    Arr(Vec<J>),
    Obj(Vec<(String, J)>),
}

impl J {
    pub fn get(&self, k: &str) -> Option<&J> {
        match self {
            J::Obj(v) => v.iter().find(|(kk, _)| kk == k).map(|(_, v)| v),
            _ => None,
        }
    }
    pub fn as_str(&self) -> Option<&str> {
        match self {
            J::Str(s) => Some(s),
            _ => None,
        }
    }
    pub fn as_u64(&self) -> Option<u64> {
        match self {
            J::Int(i) => u64::try_from(*i).ok(),
            J::Num(f) => Some(*f as u64),
            _ => None,
        }
    }
    pub fn as_arr(&self) -> Option<&[J]> {
        match self {
            J::Arr(v) => Some(v),
            _ => None,
        }
    }
}

pub fn parse(src: &str) -> Result<J, String> {
    let b = src.as_bytes();
    let mut p = 0usize;
    let v = val(b, &mut p)?;
    ws(b, &mut p);
    if p != b.len() {
        return Err(format!("trailing data at {p}"));
    }
    Ok(v)
}

fn ws(b: &[u8], p: &mut usize) {
    while *p < b.len() && (b[*p] as char).is_whitespace() {
        *p += 1;
    }
}

fn val(b: &[u8], p: &mut usize) -> Result<J, String> {
    ws(b, p);
    if *p >= b.len() {
        return Err("eof".into());
    }
    match b[*p] {
        b'{' => {
            *p += 1;
            let mut v = Vec::new();
            ws(b, p);
            if b.get(*p) == Some(&b'}') {
                *p += 1;
                return Ok(J::Obj(v));
            }
            loop {
                ws(b, p);
                let k = match val(b, p)? {
                    J::Str(s) => s,
                    _ => return Err("key".into()),
                };
                ws(b, p);
                if b.get(*p) != Some(&b':') {
                    return Err(format!("expected : at {p}"));
                }
                *p += 1;
                let x = val(b, p)?;
                v.push((k, x));
                ws(b, p);
                match b.get(*p) {
                    Some(b',') => *p += 1,
                    Some(b'}') => {
                        *p += 1;
                        return Ok(J::Obj(v));
                    }
                    _ => return Err(format!("expected , or }} at {p}")),
                }
            }
        }
        b'[' => {
            *p += 1;
            let mut v = Vec::new();
            ws(b, p);
            if b.get(*p) == Some(&b']') {
                *p += 1;
                return Ok(J::Arr(v));
            }
            loop {
                v.push(val(b, p)?);
                ws(b, p);
                match b.get(*p) {
                    Some(b',') => *p += 1,
                    Some(b']') => {
                        *p += 1;
                        return Ok(J::Arr(v));
                    }
                    _ => return Err(format!("expected , or ] at {p}")),
                }
            }
        }
        b'"' => {
            *p += 1;
            let mut s = String::new();
            loop {
                let c = *b.get(*p).ok_or("eof in string")?;
                *p += 1;
                match c {
                    b'"' => return Ok(J::Str(s)),
                    b'\\' => {
                        let e = *b.get(*p).ok_or("eof in escape")?;
                        *p += 1;
                        match e {
                            b'n' => s.push('\n'),
                            b't' => s.push('\t'),
                            b'r' => s.push('\r'),
                            b'u' => {
                                let h = std::str::from_utf8(&b[*p..*p + 4]).map_err(|e| e.to_string())?;
                                let cp = u32::from_str_radix(h, 16).map_err(|e| e.to_string())?;
                                s.push(char::from_u32(cp).unwrap_or('?'));
                                *p += 4;
                            }
                            other => s.push(other as char),
                        }
                    }
                    c => {
                        // re-assemble utf-8
                        let start = *p - 1;
                        let len = if c < 0x80 { 1 } else if c >> 5 == 0b110 { 2 } else if c >> 4 == 0b1110 { 3 } else { 4 };
                        let chunk = std::str::from_utf8(&b[start..start + len]).map_err(|e| e.to_string())?;
                        s.push_str(chunk);
                        *p = start + len;
                    }
                }
            }
        }
        b't' if b[*p..].starts_with(b"true") => {
            *p += 4;
            Ok(J::Bool(true))
        }
        b'f' if b[*p..].starts_with(b"false") => {
            *p += 5;
            Ok(J::Bool(false))
        }
        b'n' if b[*p..].starts_with(b"null") => {
            *p += 4;
            Ok(J::Null)
        }
        _ => {
            let st = *p;
            while *p < b.len() && (b[*p] == b'-' || b[*p] == b'+' || b[*p] == b'.' || b[*p] == b'e' || b[*p] == b'E' || b[*p].is_ascii_digit()) {
                *p += 1;
            }
            let t = std::str::from_utf8(&b[st..*p]).unwrap();
            if let Ok(i) = t.parse::<i128>() {
                Ok(J::Int(i))
            } else {
                t.parse::<f64>().map(J::Num).map_err(|e| format!("number {t}: {e}"))
            }
        }
    }
}
