#![allow(dead_code, clippy::all)]
//! fcsim — deterministic simulation of futures-concurrency under a seeded scheduler
//! with fault injection. One binary per feature configuration (std / alloc / no_std).

mod choice;
mod dynnest;
#[cfg(not(feature = "cfg-nostd"))]
mod costream;
#[cfg(feature = "cfg-nostd")]
#[path = "costream_stub.rs"]
mod costream;
mod exec;
mod gen;
#[cfg(not(feature = "cfg-nostd"))]
mod group;
#[cfg(feature = "cfg-nostd")]
#[path = "group_stub.rs"]
mod group;
mod json;
mod leaf;
mod narr;
mod nested;
mod oracle;
mod roots;
mod shrink;
mod world;

use choice::{fnv, mix, Choices};
use exec::{run, FaultSpec, RunResult};
use std::collections::{BTreeMap, HashSet};
use std::sync::atomic::{AtomicBool, AtomicU64, Ordering};
use std::sync::Mutex;
use std::time::Instant;

pub const CONFIG: &str = if cfg!(feature = "cfg-std") {
    "std"
} else if cfg!(feature = "cfg-alloc") {
    "alloc"
} else {
    "nostd"
};

pub fn prop_static(p: &str) -> &'static str {
    const ALL: [&str; 20] = [
        "C01", "C02", "C03", "C04", "C05", "C06", "C07", "C08", "C09", "C10", "C11", "C12", "C13", "C14", "C15",
        "C16", "C17", "C18", "C19", "C20",
    ];
    ALL.iter().copied().find(|x| *x == p).unwrap_or_else(|| {
        eprintln!("unknown property {p}");
        std::process::exit(2)
    })
}

pub fn run_seed(base: u64, prop: &str, i: u64) -> u64 {
    mix(mix(base, fnv(prop)), i)
}

#[derive(Clone)]
pub struct Found {
    pub oracle: String,
    pub key: String,
    pub msg: String,
    pub seed: u64,
    pub index: u64,
    pub faults: FaultSpec,
    pub trace: Vec<u32>,
    pub describe: String,
}

/// What a worker is executing right now (read by the watchdog).
#[derive(Default)]
struct Slot {
    /// milliseconds since process start at which the current execution began (0 = idle)
    since_ms: AtomicU64,
    seed: AtomicU64,
    /// cancel_after_polls + 1 (0 = none)
    cancel1: AtomicU64,
    panic_at: AtomicU64,
    closure_at: AtomicU64,
}

thread_local! {
    static MY_SLOT: std::cell::Cell<usize> = const { std::cell::Cell::new(usize::MAX) };
}
static SLOTS: std::sync::OnceLock<Vec<Slot>> = std::sync::OnceLock::new();
static T0: std::sync::OnceLock<Instant> = std::sync::OnceLock::new();

fn slot_begin(seed: u64, f: &FaultSpec) {
    let i = MY_SLOT.with(|c| c.get());
    if let (Some(slots), Some(t0)) = (SLOTS.get(), T0.get()) {
        if let Some(sl) = slots.get(i) {
            sl.seed.store(seed, Ordering::Relaxed);
            sl.cancel1.store(f.cancel_after_polls.map(|k| k as u64 + 1).unwrap_or(0), Ordering::Relaxed);
            sl.panic_at.store(f.panic_at_child_poll as u64, Ordering::Relaxed);
            sl.closure_at.store(f.panic_at_closure_call as u64, Ordering::Relaxed);
            sl.since_ms.store(t0.elapsed().as_millis() as u64 + 1, Ordering::Release);
        }
    }
}
fn slot_end() {
    let i = MY_SLOT.with(|c| c.get());
    if let Some(slots) = SLOTS.get() {
        if let Some(sl) = slots.get(i) {
            sl.since_ms.store(0, Ordering::Release);
        }
    }
}

struct Shared {
    hashes: Mutex<HashSet<u64>>,
    nontrivial: Mutex<HashSet<u64>>,
    stats: Mutex<world::Stats>,
    keys: Mutex<BTreeMap<String, u64>>,
    found: Mutex<BTreeMap<String, Found>>,
    harness_errors: Mutex<Vec<String>>,
    samples: Mutex<Vec<(u64, String, Vec<String>)>>,
    evaluations: AtomicU64,
    scenarios: AtomicU64,
    stop: AtomicBool,
}

fn args_map() -> (String, BTreeMap<String, String>) {
    let mut it = std::env::args().skip(1);
    let mode = it.next().unwrap_or_else(|| "help".into());
    let mut m = BTreeMap::new();
    let mut pending: Option<String> = None;
    for a in it {
        if let (Some(k), false) = (pending.as_ref(), a.starts_with("--")) {
            m.insert(k.clone(), a);
            pending = None;
        } else if let Some(k) = a.strip_prefix("--") {
            // a flag without a value followed by another option
            if let Some(prev) = pending.take() {
                m.insert(prev, "1".into());
            }
            pending = Some(k.to_string());
        } else {
            m.insert("_".into(), a);
        }
    }
    if let Some(k) = pending {
        m.insert(k, "1".into());
    }
    (mode, m)
}

fn main() {
    leaf::install_panic_hook();
    let (mode, a) = args_map();
    let code = match mode.as_str() {
        "check" => cmd_check(&a),
        "replay" => cmd_replay(&a),
        "hashes" => cmd_hashes(&a),
        "one" => cmd_one(&a),
        "exec" => cmd_exec(&a),
        _ => {
            eprintln!("usage: fcsim check|replay|hashes|one --prop C01 --runs N --seed S --threads T --out FILE --replay-dir DIR");
            2
        }
    };
    std::process::exit(code);
}

fn get<T: std::str::FromStr>(a: &BTreeMap<String, String>, k: &str, d: T) -> T {
    a.get(k).and_then(|v| v.parse().ok()).unwrap_or(d)
}

/// One scenario: for ordinary properties one run; for C02 the fault-free run plus every crash point.
fn announce(seed: u64, f: &FaultSpec) {
    if ANNOUNCE.load(Ordering::Relaxed) {
        eprintln!(
            "EXEC run_seed={} cancel={} panic={} closure={}",
            seed,
            f.cancel_after_polls.map(|k| k.to_string()).unwrap_or_else(|| "-".into()),
            f.panic_at_child_poll,
            f.panic_at_closure_call
        );
    }
}
static ANNOUNCE: AtomicBool = AtomicBool::new(false);

fn scenario(prop: &'static str, seed: u64, index: u64, sh: &Shared, local: &mut Local) {
    sh.scenarios.fetch_add(1, Ordering::Relaxed);
    let want_sample = local.samples_taken < 1 && index % 7 == 3;
    announce(seed, &FaultSpec::default());
    slot_begin(seed, &FaultSpec::default());
    let r = run(prop, Choices::from_seed(seed), FaultSpec::default(), want_sample);
    slot_end();
    local.absorb(prop, seed, index, FaultSpec::default(), &r, sh, want_sample);
    if prop == "C02" && r.violation.is_none() && r.harness_error.is_none() {
        let trace: Vec<u32> = r.trace.iter().map(|x| x.1).collect();
        let p = r.root_polls;
        let q = r.child_polls;
        // under --small (the Miri sample, ~1 s per execution) a scenario with very many crash points is thinned out
        // to about 48 of them, evenly spaced; everywhere else the enumeration is complete
        let total = p + 2 + q + r.closure_calls;
        let stride = if gen::small() && total > 48 { (total + 47) / 48 } else { 1 };
        let mut nth = 0u32;
        let mut take = move || {
            nth += 1;
            (nth - 1) % stride == 0
        };
        for k in 0..=p + 1 {
            if !take() {
                continue;
            }
            let f = FaultSpec { cancel_after_polls: Some(k), ..FaultSpec::default() };
            announce(seed, &f);
            slot_begin(seed, &f);
            let rr = run(prop, Choices::from_trace(trace.clone()), f, false);
            slot_end();
            local.crash_points += 1;
            local.absorb(prop, seed, index, f, &rr, sh, false);
        }
        for j in 1..=q {
            if !take() {
                continue;
            }
            let f = FaultSpec { panic_at_child_poll: j, ..FaultSpec::default() };
            announce(seed, &f);
            slot_begin(seed, &f);
            let rr = run(prop, Choices::from_trace(trace.clone()), f, false);
            slot_end();
            local.crash_points += 1;
            local.absorb(prop, seed, index, f, &rr, sh, false);
        }
        for j in 1..=r.closure_calls {
            if !take() {
                continue;
            }
            let f = FaultSpec { panic_at_closure_call: j, ..FaultSpec::default() };
            announce(seed, &f);
            slot_begin(seed, &f);
            let rr = run(prop, Choices::from_trace(trace.clone()), f, false);
            slot_end();
            local.crash_points += 1;
            local.absorb(prop, seed, index, f, &rr, sh, false);
        }
    }
}

#[derive(Default)]
struct Local {
    hashes: HashSet<u64>,
    nontrivial: HashSet<u64>,
    stats: world::Stats,
    keys: BTreeMap<String, u64>,
    evaluations: u64,
    crash_points: u64,
    samples_taken: u32,
}

impl Local {
    fn absorb(&mut self, prop: &'static str, seed: u64, index: u64, faults: FaultSpec, r: &RunResult, sh: &Shared, sample: bool) {
        self.evaluations += 1;
        self.hashes.insert(r.hash);
        if r.nontrivial {
            self.nontrivial.insert(r.hash);
        }
        self.stats.add(&r.stats);
        *self.keys.entry(r.key.clone()).or_insert(0) += 1;
        if let Some(e) = &r.harness_error {
            sh.harness_errors.lock().unwrap().push(format!("seed {seed}: {e}"));
            sh.stop.store(true, Ordering::Relaxed);
        }
        if let Some(v) = &r.violation {
            let sig = format!("{}|{}", v.oracle, r.key);
            let mut f = sh.found.lock().unwrap();
            if !f.contains_key(&sig) {
                f.insert(
                    sig,
                    Found {
                        oracle: v.oracle.to_string(),
                        key: r.key.clone(),
                        msg: v.msg.clone(),
                        seed,
                        index,
                        faults,
                        trace: r.trace.iter().map(|x| x.1).collect(),
                        describe: r.describe.clone(),
                    },
                );
                if f.len() >= 12 {
                    sh.stop.store(true, Ordering::Relaxed);
                }
            }
        }
        if sample && r.nontrivial && r.violation.is_none() {
            if let Some(n) = &r.narration {
                let mut s = sh.samples.lock().unwrap();
                if s.len() < 3 {
                    s.push((seed, r.describe.clone(), n.clone()));
                    self.samples_taken += 1;
                }
            }
        }
        let _ = prop;
    }
    fn flush(self, sh: &Shared) {
        sh.hashes.lock().unwrap().extend(self.hashes);
        sh.nontrivial.lock().unwrap().extend(self.nontrivial);
        sh.stats.lock().unwrap().add(&self.stats);
        let mut k = sh.keys.lock().unwrap();
        for (key, c) in self.keys {
            *k.entry(key).or_insert(0) += c;
        }
        sh.evaluations.fetch_add(self.evaluations, Ordering::Relaxed);
    }
}

fn cmd_check(a: &BTreeMap<String, String>) -> i32 {
    let prop = prop_static(a.get("prop").map(|s| s.as_str()).unwrap_or("C01"));
    let runs: u64 = get(a, "runs", 10_000);
    let base: u64 = get(a, "seed", 1);
    let threads: usize = get(a, "threads", 16);
    let max_secs: f64 = get(a, "max-secs", 1e9);
    let out = a.get("out").cloned();
    let replay_dir = a.get("replay-dir").cloned().unwrap_or_else(|| "/verif/replays".into());
    let tier = a.get("tier").cloned().unwrap_or_else(|| "quick".into());
    ANNOUNCE.store(a.contains_key("announce"), Ordering::Relaxed);
    gen::SMALL.store(a.contains_key("small"), Ordering::Relaxed);
    let t0 = Instant::now();
    let sh = Shared {
        hashes: Mutex::new(HashSet::new()),
        nontrivial: Mutex::new(HashSet::new()),
        stats: Mutex::new(world::Stats::default()),
        keys: Mutex::new(BTreeMap::new()),
        found: Mutex::new(BTreeMap::new()),
        harness_errors: Mutex::new(Vec::new()),
        samples: Mutex::new(Vec::new()),
        evaluations: AtomicU64::new(0),
        scenarios: AtomicU64::new(0),
        stop: AtomicBool::new(false),
    };
    let next = AtomicU64::new(0);
    const CHUNK: u64 = 64;
    let _ = T0.set(t0);
    let _ = SLOTS.set((0..threads.max(1)).map(|_| Slot::default()).collect());
    let finished = AtomicBool::new(false);
    let hang_secs: u64 = get(a, "hang-secs", 90);
    let slot_ids = AtomicU64::new(0);
    std::thread::scope(|s| {
        // watchdog: an execution that does not finish (endless loop without child polls, a real deadlock)
        // cannot be cut by the step counter; report it with its seed and stop the process.
        s.spawn(|| {
            while !finished.load(Ordering::Relaxed) {
                std::thread::sleep(std::time::Duration::from_millis(250));
                let now = t0.elapsed().as_millis() as u64;
                for sl in SLOTS.get().unwrap() {
                    let since = sl.since_ms.load(Ordering::Acquire);
                    if since != 0 && now > since + hang_secs * 1000 {
                        let seed = sl.seed.load(Ordering::Relaxed);
                        let cancel = sl.cancel1.load(Ordering::Relaxed);
                        let panic_at = sl.panic_at.load(Ordering::Relaxed);
                        let closure_at = sl.closure_at.load(Ordering::Relaxed);
                        let _ = std::fs::create_dir_all(&replay_dir);
                        let path = format!("{replay_dir}/{prop}-{}-hang-{seed:016x}.json", CONFIG);
                        let oracle = format!("{}.hang", prop.to_ascii_lowercase());
                        let msg = format!("one execution did not finish within {hang_secs} s of wall-clock time (endless loop or deadlock inside the code under test)");
                        let body = format!(
                            "{{\n\"engine\":\"hang\",\n\"property\":{},\n\"oracle\":{},\n\"config\":{},\n\"run_seed\":\"{}\",\n\"cancel\":{},\n\"panic\":\"{}\",\n\"closure\":\"{}\",\n\"message\":{},\n\"replay_cmd\":{}\n}}\n",
                            json::s(prop), json::s(&oracle), json::s(CONFIG), seed,
                            if cancel == 0 { "\"-\"".to_string() } else { format!("\"{}\"", cancel - 1) },
                            panic_at, closure_at, json::s(&msg), json::s(&format!("/verif/check replay {path}"))
                        );
                        let _ = std::fs::write(&path, body);
                        println!("FOUND property={} oracle={} key=hang replay={}", prop, oracle, path);
                        if let Some(out) = &out {
                            let o = format!(
                                "{{\"config\":{},\"property\":{},\"tier\":{},\"seed\":{},\"scenarios\":{},\"evaluations\":{},\"distinct_logs\":0,\"distinct_nontrivial\":0,\"wall_s\":{:.3},\"stats\":{{}},\"shapes\":{{}},\"violations\":[{{\"oracle\":{},\"key\":\"hang\",\"msg\":{},\"seed\":{},\"replay\":{}}}],\"harness_errors\":[],\"samples\":[]}}",
                                json::s(CONFIG), json::s(prop), json::s(&tier), base,
                                sh.scenarios.load(Ordering::Relaxed), sh.scenarios.load(Ordering::Relaxed).max(1),
                                t0.elapsed().as_secs_f64(), json::s(&oracle), json::s(&msg), seed, json::s(&path)
                            );
                            let _ = std::fs::write(out, o);
                        }
                        std::process::exit(1);
                    }
                }
            }
        });
        let workers: Vec<_> = (0..threads.max(1)).map(|_| {
            s.spawn(|| {
                MY_SLOT.with(|c| c.set(slot_ids.fetch_add(1, Ordering::Relaxed) as usize));
                let mut local = Local::default();
                loop {
                    if sh.stop.load(Ordering::Relaxed) || t0.elapsed().as_secs_f64() > max_secs {
                        break;
                    }
                    let lo = next.fetch_add(CHUNK, Ordering::Relaxed);
                    if lo >= runs {
                        break;
                    }
                    for i in lo..(lo + CHUNK).min(runs) {
                        scenario(prop, run_seed(base, prop, i), i, &sh, &mut local);
                    }
                }
                local.flush(&sh);
            })
        }).collect();
        for h in workers {
            let _ = h.join();
        }
        finished.store(true, Ordering::Relaxed);
    });
    // shrink + write replay files for every distinct violation signature
    let found: Vec<Found> = sh.found.lock().unwrap().values().cloned().collect();
    let mut vio_json = Vec::new();
    for f in &found {
        let (min_trace, tried) = shrink::minimise(prop, f);
        let path = shrink::write_replay(&replay_dir, prop, f, &min_trace, tried);
        vio_json.push(format!(
            "{{\"oracle\":{},\"key\":{},\"msg\":{},\"seed\":{},\"replay\":{},\"orig_len\":{},\"min_len\":{}}}",
            json::s(&f.oracle),
            json::s(&f.key),
            json::s(&f.msg),
            f.seed,
            json::s(&path),
            f.trace.len(),
            min_trace.len()
        ));
        println!("FOUND property={} oracle={} key={} replay={}", prop, f.oracle, f.key, path);
    }
    let wall = t0.elapsed().as_secs_f64();
    let stats = sh.stats.lock().unwrap().clone();
    let samples = sh.samples.lock().unwrap();
    let herr = sh.harness_errors.lock().unwrap();
    let mut o = String::new();
    o.push_str("{\n");
    o.push_str(&format!("\"config\":{},\n\"property\":{},\n\"tier\":{},\n\"seed\":{},\n", json::s(CONFIG), json::s(prop), json::s(&tier), base));
    o.push_str(&format!("\"scenarios\":{},\n\"evaluations\":{},\n", sh.scenarios.load(Ordering::Relaxed), sh.evaluations.load(Ordering::Relaxed)));
    o.push_str(&format!("\"distinct_logs\":{},\n\"distinct_nontrivial\":{},\n", sh.hashes.lock().unwrap().len(), sh.nontrivial.lock().unwrap().len()));
    o.push_str(&format!("\"wall_s\":{:.3},\n", wall));
    o.push_str("\"stats\":{");
    o.push_str(&stats.fields().iter().map(|(k, v)| format!("{}:{}", json::s(k), v)).collect::<Vec<_>>().join(","));
    o.push_str("},\n\"shapes\":{");
    o.push_str(&sh.keys.lock().unwrap().iter().map(|(k, v)| format!("{}:{}", json::s(k), v)).collect::<Vec<_>>().join(","));
    o.push_str("},\n\"violations\":[");
    o.push_str(&vio_json.join(","));
    o.push_str("],\n\"harness_errors\":[");
    o.push_str(&herr.iter().map(|e| json::s(e)).collect::<Vec<_>>().join(","));
    o.push_str("],\n\"samples\":[");
    o.push_str(
        &samples
            .iter()
            .map(|(seed, d, n)| {
                format!(
                    "{{\"run_seed\":{},\"scenario\":{},\"log\":[{}]}}",
                    seed,
                    json::s(d),
                    n.iter().map(|l| json::s(l)).collect::<Vec<_>>().join(",")
                )
            })
            .collect::<Vec<_>>()
            .join(","),
    );
    o.push_str("]\n}\n");
    match out {
        Some(p) => std::fs::write(&p, o).expect("write partial evidence"),
        None => print!("{o}"),
    }
    if !herr.is_empty() {
        for e in herr.iter() {
            eprintln!("HARNESS-ERROR: {e}");
        }
        return 2;
    }
    if found.is_empty() {
        0
    } else {
        1
    }
}

fn cmd_hashes(a: &BTreeMap<String, String>) -> i32 {
    let prop = prop_static(a.get("prop").map(|s| s.as_str()).unwrap_or("C01"));
    let runs: u64 = get(a, "runs", 1000);
    let base: u64 = get(a, "seed", 1);
    let threads: usize = get(a, "threads", 1);
    let out: Mutex<Vec<(u64, u64, bool)>> = Mutex::new(Vec::with_capacity(runs as usize));
    let next = AtomicU64::new(0);
    std::thread::scope(|s| {
        for _ in 0..threads.max(1) {
            s.spawn(|| loop {
                let lo = next.fetch_add(32, Ordering::Relaxed);
                if lo >= runs {
                    break;
                }
                let mut v = Vec::new();
                for i in lo..(lo + 32).min(runs) {
                    let r = run(prop, Choices::from_seed(run_seed(base, prop, i)), FaultSpec::default(), false);
                    v.push((i, r.hash ^ (r.trace.len() as u64) << 48, r.violation.is_some()));
                }
                out.lock().unwrap().extend(v);
            });
        }
    });
    let mut v = out.into_inner().unwrap();
    v.sort();
    let mut acc = 0u64;
    for (i, h, viol) in &v {
        acc = mix(acc ^ *h, *i + *viol as u64);
    }
    println!("{} {} runs={} digest={:016x}", CONFIG, prop, v.len(), acc);
    if a.contains_key("dump") {
        for (i, h, viol) in &v {
            println!("{i} {h:016x} {viol}");
        }
    }
    0
}

fn cmd_one(a: &BTreeMap<String, String>) -> i32 {
    let prop = prop_static(a.get("prop").map(|s| s.as_str()).unwrap_or("C01"));
    let base: u64 = get(a, "seed", 1);
    let index: u64 = get(a, "index", 0);
    let seed = if a.contains_key("run-seed") { get(a, "run-seed", 0) } else { run_seed(base, prop, index) };
    let r = run(prop, Choices::from_seed(seed), FaultSpec::default(), true);
    println!("scenario: {}", r.describe);
    for l in r.narration.unwrap_or_default() {
        println!("{l}");
    }
    println!("hash {:016x} nontrivial={} draws={}", r.hash, r.nontrivial, r.trace.len());
    if r.violation.is_some() {
        1
    } else {
        0
    }
}

/// One execution from a run seed plus an enumerated crash point (replay of a Miri finding).
fn cmd_exec(a: &BTreeMap<String, String>) -> i32 {
    gen::SMALL.store(a.contains_key("small"), Ordering::Relaxed);
    let prop = prop_static(a.get("prop").map(|s| s.as_str()).unwrap_or("C02"));
    let seed: u64 = get(a, "run-seed", 0);
    let f = FaultSpec {
        cancel_after_polls: a.get("cancel").and_then(|v| v.parse().ok()),
        panic_at_child_poll: get(a, "panic", 0),
        panic_at_closure_call: get(a, "closure", 0),
        no_faults: false,
    };
    // the crash points of a scenario are re-executions of the fault-free run's choice trace
    let r0 = run(prop, Choices::from_seed(seed), FaultSpec::default(), false);
    let r = if f.cancel_after_polls.is_none() && f.panic_at_child_poll == 0 && f.panic_at_closure_call == 0 {
        r0
    } else {
        run(prop, Choices::from_trace(r0.trace.iter().map(|x| x.1).collect()), f, a.contains_key("verbose"))
    };
    println!("scenario: {}", r.describe);
    if a.contains_key("verbose") {
        for l in r.narration.clone().unwrap_or_default() {
            println!("{l}");
        }
    }
    match &r.violation {
        Some(v) => {
            println!("[{}] {}", v.oracle, v.msg);
            1
        }
        None => {
            println!("no oracle violation in this execution (hash {:016x})", r.hash);
            0
        }
    }
}

fn cmd_replay(a: &BTreeMap<String, String>) -> i32 {
    let Some(file) = a.get("file").or_else(|| a.get("_")) else {
        eprintln!("replay: need --file");
        return 2;
    };
    let rp = match shrink::read_replay(file) {
        Ok(r) => r,
        Err(e) => {
            eprintln!("replay: cannot read {file}: {e}");
            return 2;
        }
    };
    if rp.config != CONFIG {
        eprintln!("replay: file is for configuration {} but this binary is {}", rp.config, CONFIG);
        return 3;
    }
    let prop = prop_static(&rp.property);
    let r = run(prop, Choices::from_trace(rp.trace.clone()), rp.faults, true);
    if a.contains_key("verbose") {
        for l in r.narration.clone().unwrap_or_default() {
            println!("{l}");
        }
    }
    match &r.violation {
        Some(v) if v.oracle == rp.oracle => {
            println!("replayed: [{}] {}", v.oracle, v.msg);
            if r.hash != rp.log_hash {
                println!("note: log hash differs from the recorded one ({:016x} vs {:016x}): the tree changed since the file was written", r.hash, rp.log_hash);
            }
            println!("VIOLATION property={} replay={}", prop, file);
            1
        }
        Some(v) => {
            println!("replayed a different violation: [{}] {}", v.oracle, v.msg);
            println!("VIOLATION property={} replay={}", prop, file);
            1
        }
        None => {
            println!("replay of {file}: no violation on this tree (recorded: [{}])", rp.oracle);
            0
        }
    }
}
