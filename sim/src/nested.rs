//! Nested shapes (one level of nesting) with probe wrappers around the inner combinators.
use crate::gen::{Plan, Profile};
use crate::roots::Root;
use crate::world::World;

pub fn name(_kind: u32) -> &'static str {
    "todo"
}

pub fn plan(w: &mut World, p: &Profile) -> Plan {
    crate::gen::flat(w, p)
}

pub fn build(_kind: u32, _plan: &Plan) -> Box<dyn Root> {
    unimplemented!()
}
