//! Nested shapes (one level of nesting). Inner combinators are wrapped in probes
//! (`Probe` / `SProbe`) which log their polls and the wakers they are handed, so the
//! notification invariant, poll discipline and selective polling can be checked at
//! the boundary between an outer and an inner combinator.

use crate::gen::{fut_script, stream_script, LeafPlan, Plan, Profile, Shape};
use crate::leaf::{Probe, SProbe, SimFut, SimStream, Val};
use crate::roots::{AggRoot, FutRoot, Root, StreamRoot};
use crate::world::{with, Ev, Family, NodeId, World, NO_NODE, ROOT};
use futures_concurrency::future::{FutureExt as _, Join, Race, RaceOk, TryJoin};
use futures_concurrency::stream::{Chain, Merge, Zip};
use Family::*;

/// Tree description of a shape: `L` = scripted leaf.
#[derive(Clone)]
pub enum T {
    L,
    N(Family, Vec<T>),
}
use T::{L, N};

fn n2(f: Family) -> T {
    N(f, vec![L, L])
}

struct Spec {
    name: &'static str,
    needs_alloc: bool,
    tree: fn() -> T,
}

const SPECS: &[Spec] = &[
    Spec { name: "join(join2,join[2],leaf)", needs_alloc: false, tree: || N(Join, vec![n2(Join), n2(Join), L]) },
    Spec { name: "merge(merge2,chain2)", needs_alloc: false, tree: || N(Merge, vec![n2(Merge), n2(Chain)]) },
    Spec { name: "zip(merge2,merge[2])", needs_alloc: false, tree: || N(Zip, vec![n2(Merge), n2(Merge)]) },
    Spec { name: "race(join2,join2)", needs_alloc: false, tree: || N(Race, vec![n2(Join), n2(Join)]) },
    Spec { name: "race_ok[try_join2,try_join2]", needs_alloc: false, tree: || N(RaceOk, vec![n2(TryJoin), n2(TryJoin)]) },
    Spec { name: "try_join(try_join[2],leaf)", needs_alloc: false, tree: || N(TryJoin, vec![n2(TryJoin), L]) },
    Spec { name: "chain(merge2,zip2)", needs_alloc: false, tree: || N(Chain, vec![n2(Merge), n2(Zip)]) },
    Spec { name: "merge[zip2,zip2]", needs_alloc: false, tree: || N(Merge, vec![n2(Zip), n2(Zip)]) },
    Spec { name: "join[race2,race2]", needs_alloc: false, tree: || N(Join, vec![n2(Race), n2(Race)]) },
    Spec { name: "wait_until(join2,deadline)", needs_alloc: false, tree: || N(WaitUntilF, vec![n2(Join), L]) },
    Spec { name: "zip(chain2,merge2)", needs_alloc: false, tree: || N(Zip, vec![n2(Chain), n2(Merge)]) },
    Spec { name: "join vec[join vec2,join vec3]", needs_alloc: true, tree: || N(Join, vec![n2(Join), N(Join, vec![L, L, L])]) },
    Spec { name: "merge vec[merge vec2,merge vec2]", needs_alloc: true, tree: || N(Merge, vec![n2(Merge), n2(Merge)]) },
    Spec { name: "FutureGroup{join2,join2,join[2]}", needs_alloc: true, tree: || N(FutGroup, vec![n2(Join), n2(Join), n2(Join)]) },
    Spec { name: "StreamGroup{merge2,merge2}", needs_alloc: true, tree: || N(StreamGroup, vec![n2(Merge), n2(Merge)]) },
    Spec { name: "merge(FutureGroup{2},FutureGroup{2})", needs_alloc: true, tree: || N(Merge, vec![n2(FutGroup), n2(FutGroup)]) },
    Spec { name: "zip vec[StreamGroup{2},merge vec2]", needs_alloc: true, tree: || N(Zip, vec![n2(StreamGroup), n2(Merge)]) },
];

pub fn name(kind: u32) -> &'static str {
    SPECS[kind as usize].name
}

fn leaf_is_stream(parent: Family, pos: usize) -> bool {
    match parent {
        Merge | Zip | Chain | StreamGroup => true,
        WaitUntilS => pos == 0,
        _ => false,
    }
}

fn usable(kind: usize, _p: &Profile) -> bool {
    // Every oracle that runs on nested shapes (C01, C02, C03, C16, C20) decides per node whether its
    // rule applies to that node's family, so every shape is usable by every such property.
    !(SPECS[kind].needs_alloc && cfg!(feature = "cfg-nostd"))
}

pub fn plan(w: &mut World, p: &Profile) -> Plan {
    let cands: Vec<usize> = (0..SPECS.len()).filter(|&k| usable(k, p)).collect();
    if cands.is_empty() {
        return crate::gen::flat(w, p);
    }
    let kind = cands[w.ch.draw("nested.kind", cands.len() as u32) as usize];
    let tree = (SPECS[kind].tree)();
    let mut leaves = Vec::new();
    let err_bias = w.ch.draw("err.bias", 5) + 1;
    fn walk(w: &mut World, p: &Profile, t: &T, parent: Family, pos: usize, err_bias: u32, out: &mut Vec<LeafPlan>) {
        match t {
            L => {
                let lp = if leaf_is_stream(parent, pos) {
                    stream_script(w, p, true)
                } else {
                    fut_script(w, matches!(parent, TryJoin | RaceOk), p, false, err_bias)
                };
                out.push(lp);
            }
            N(f, kids) => {
                for (i, k) in kids.iter().enumerate() {
                    walk(w, p, k, *f, i, err_bias, out);
                }
            }
        }
    }
    walk(w, p, &tree, Leaf, 0, err_bias, &mut leaves);
    let cancel_at = if p.allow_cancel && w.ch.draw("cancel", 4) == 3 { Some(w.ch.draw("cancel.at", 6)) } else { None };
    Plan { shape: Shape::Nested { kind: kind as u32 }, leaves, cancel_at, max_yields: u32::MAX, distinguished: None }
}

/// Node ids of a built tree: inner combinator nodes and leaves, both in DFS order.
struct Ids {
    inner: Vec<NodeId>,
    leaf: Vec<NodeId>,
}

fn make_nodes(w: &mut World, tree: &T, plan: &Plan) -> Ids {
    let mut ids = Ids { inner: Vec::new(), leaf: Vec::new() };
    fn walk(w: &mut World, t: &T, parent: NodeId, pfam: Family, pos: usize, plan: &Plan, ids: &mut Ids) {
        match t {
            L => {
                let lp = &plan.leaves[ids.leaf.len()];
                let id = w.new_leaf(parent, lp.script.clone(), lp.term, leaf_is_stream(pfam, pos), matches!(pfam, TryJoin | RaceOk));
                if matches!(pfam, FutGroup | StreamGroup) {
                    w.node_mut(id).key = Some(pos);
                }
                ids.leaf.push(id);
            }
            N(f, kids) => {
                let id = w.new_node(parent, *f);
                if parent != NO_NODE {
                    ids.inner.push(id);
                    if matches!(pfam, FutGroup | StreamGroup) {
                        w.node_mut(id).key = Some(pos);
                    }
                    w.node_mut(id).fallible = matches!(pfam, TryJoin | RaceOk);
                    w.node_mut(id).is_stream = leaf_is_stream(pfam, pos);
                }
                for (i, k) in kids.iter().enumerate() {
                    walk(w, k, id, *f, i, plan, ids);
                }
            }
        }
    }
    walk(w, tree, NO_NODE, Leaf, 0, plan, &mut ids);
    ids
}

fn f(n: NodeId) -> SimFut<Val> {
    SimFut::new(n)
}
fn tf(n: NodeId) -> SimFut<Result<Val, Val>> {
    SimFut::new(n)
}
fn st(n: NodeId) -> SimStream {
    SimStream::new(n)
}
/// future probe around a pinned inner future
macro_rules! fp {
    ($node:expr, $inner:expr) => {
        Probe::new($node, Box::pin($inner))
    };
}
/// stream probe around a pinned inner stream
macro_rules! sp {
    ($node:expr, $inner:expr) => {
        SProbe::new($node, Box::pin($inner))
    };
}

pub fn build(kind: u32, plan: &Plan) -> Box<dyn Root> {
    let tree = (SPECS[kind as usize].tree)();
    let ids = with(|w| {
        let ids = make_nodes(w, &tree, plan);
        w.model.flat = false;
        w.emit(Ev::RootCreated { fam: w.node(ROOT).fam });
        ids
    });
    let (i, l) = (&ids.inner, &ids.leaf);
    match kind {
        0 => FutRoot::new(Join::join((
            fp!(i[0], Join::join((f(l[0]), f(l[1])))),
            fp!(i[1], Join::join([f(l[2]), f(l[3])])),
            f(l[4]),
        ))),
        1 => StreamRoot::new(Merge::merge((
            sp!(i[0], Merge::merge((st(l[0]), st(l[1])))),
            sp!(i[1], Chain::chain((st(l[2]), st(l[3])))),
        ))),
        2 => StreamRoot::new(Zip::zip((
            sp!(i[0], Merge::merge((st(l[0]), st(l[1])))),
            sp!(i[1], Merge::merge([st(l[2]), st(l[3])])),
        ))),
        3 => FutRoot::new(Race::race((
            fp!(i[0], Join::join((f(l[0]), f(l[1])))),
            fp!(i[1], Join::join((f(l[2]), f(l[3])))),
        ))),
        4 => AggRoot::new(RaceOk::race_ok([
            fp!(i[0], TryJoin::try_join((tf(l[0]), tf(l[1])))),
            fp!(i[1], TryJoin::try_join((tf(l[2]), tf(l[3])))),
        ])),
        5 => FutRoot::new(TryJoin::try_join((
            fp!(i[0], TryJoin::try_join([tf(l[0]), tf(l[1])])),
            tf(l[2]),
        ))),
        6 => StreamRoot::new(Chain::chain((
            sp!(i[0], Merge::merge((st(l[0]), st(l[1])))),
            sp!(i[1], Zip::zip((st(l[2]), st(l[3])))),
        ))),
        7 => StreamRoot::new(Merge::merge([
            sp!(i[0], Zip::zip((st(l[0]), st(l[1])))),
            sp!(i[1], Zip::zip((st(l[2]), st(l[3])))),
        ])),
        8 => FutRoot::new(Join::join([
            fp!(i[0], Race::race((f(l[0]), f(l[1])))),
            fp!(i[1], Race::race((f(l[2]), f(l[3])))),
        ])),
        9 => FutRoot::new(fp!(i[0], Join::join((f(l[0]), f(l[1])))).wait_until(SimFut::<()>::new(l[2]))),
        10 => StreamRoot::new(Zip::zip((
            sp!(i[0], Chain::chain((st(l[0]), st(l[1])))),
            sp!(i[1], Merge::merge((st(l[2]), st(l[3])))),
        ))),
        #[cfg(not(feature = "cfg-nostd"))]
        k => build_alloc(k, &ids),
        #[cfg(feature = "cfg-nostd")]
        k => unreachable!("nested shape {k} needs alloc"),
    }
}

#[cfg(not(feature = "cfg-nostd"))]
fn build_alloc(kind: u32, ids: &Ids) -> Box<dyn Root> {
    use futures_concurrency::future::FutureGroup;
    use futures_concurrency::stream::StreamGroup;
    let (i, l) = (&ids.inner, &ids.leaf);
    let key_check = |node: NodeId, got: usize| {
        with(|w| {
            if w.node(node).key != Some(got) {
                // keys are slab indices; with static membership they are 0,1,2,.. in insertion order.
                // If an implementation hands out other keys the C16 same-key exemption must follow it.
                w.node_mut(node).key = Some(got);
            }
        })
    };
    match kind {
        11 => FutRoot::new(Join::join(vec![
            fp!(i[0], Join::join(vec![f(l[0]), f(l[1])])),
            fp!(i[1], Join::join(vec![f(l[2]), f(l[3]), f(l[4])])),
        ])),
        12 => StreamRoot::new(Merge::merge(vec![
            sp!(i[0], Merge::merge(vec![st(l[0]), st(l[1])])),
            sp!(i[1], Merge::merge(vec![st(l[2]), st(l[3])])),
        ])),
        13 => {
            let mut g = FutureGroup::new();
            with(|w| w.in_group_op = true);
            let k0 = g.insert(fp!(i[0], Join::join((f(l[0]), f(l[1])))));
            let k1 = g.insert(fp!(i[1], Join::join((f(l[2]), f(l[3])))));
            // third member is an array join boxed to the same type: use tuple join too (same type needed)
            let k2 = g.insert(fp!(i[2], Join::join((f(l[4]), f(l[5])))));
            with(|w| w.in_group_op = false);
            for (n, k) in [(i[0], k0), (i[1], k1), (i[2], k2)] {
                key_check(n, crate::group::key_index(&k));
            }
            StreamRoot::new(g)
        }
        14 => {
            let mut g = StreamGroup::new();
            with(|w| w.in_group_op = true);
            let k0 = g.insert(sp!(i[0], Merge::merge((st(l[0]), st(l[1])))));
            let k1 = g.insert(sp!(i[1], Merge::merge((st(l[2]), st(l[3])))));
            with(|w| w.in_group_op = false);
            for (n, k) in [(i[0], k0), (i[1], k1)] {
                key_check(n, crate::group::key_index(&k));
            }
            StreamRoot::new(g)
        }
        15 => {
            let mk = |a: NodeId, b: NodeId| {
                let mut g = FutureGroup::new();
                let ka = g.insert(f(a));
                let kb = g.insert(f(b));
                key_check(a, crate::group::key_index(&ka));
                key_check(b, crate::group::key_index(&kb));
                g
            };
            with(|w| w.in_group_op = true);
            let g0 = mk(l[0], l[1]);
            let g1 = mk(l[2], l[3]);
            with(|w| w.in_group_op = false);
            StreamRoot::new(Merge::merge((sp!(i[0], g0), sp!(i[1], g1))))
        }
        16 => {
            let mut g = StreamGroup::new();
            with(|w| w.in_group_op = true);
            let ka = g.insert(st(l[0]));
            let kb = g.insert(st(l[1]));
            with(|w| w.in_group_op = false);
            key_check(l[0], crate::group::key_index(&ka));
            key_check(l[1], crate::group::key_index(&kb));
            // both zip inputs must have the same type: box them as trait objects
            type Dyn = std::pin::Pin<Box<dyn futures_core::Stream<Item = Val>>>;
            let a: Dyn = Box::pin(sp!(i[0], g));
            let b: Dyn = Box::pin(sp!(i[1], Merge::merge(vec![st(l[2]), st(l[3])])));
            StreamRoot::new(Zip::zip(vec![a, b]))
        }
        k => unreachable!("no nested shape {k}"),
    }
}
