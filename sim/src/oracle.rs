//! Oracles: predicates over the event log, evaluated incrementally.
//!
//! Every rule has an id `cNN.<name>`; a rule only *reports* when its id belongs
//! to the property under check (World::flag filters by prefix), so each check
//! command decides exactly one property.

use crate::leaf::Out;
use crate::world::{Family, NodeId, Res, World, NO_NODE, ROOT};

#[derive(Default)]
pub struct Model {
    /// the root is a flat combinator over leaves
    pub flat: bool,
    /// node whose frame is being evaluated by the log-relative model (for messages)
    pub lr_node: NodeId,
    /// compare the result kind only (inner race_ok errors)
    pub lr_res_only: bool,
    /// the items of this run are zero-sized: only their number can be compared
    pub unit_items: bool,
    /// the root was built by dynnest.rs (its race_ok error is re-packaged like an inner one)
    pub dyn_root: bool,
    /// provenance (child position) of every item the root yielded (merge fairness)
    pub yields: Vec<u32>,
    /// C17: position of the always-ready input, if the scenario has one
    pub distinguished: Option<u32>,
    pub group: crate::group::GroupModel,
    pub co: crate::costream::CoModel,
}

pub fn oracle_id(prop: &str, suffix: &str) -> &'static str {
    Box::leak(format!("{}.{}", prop.to_ascii_lowercase(), suffix).into_boxed_str())
}

fn selective(f: Family) -> bool {
    matches!(
        f,
        Family::Join | Family::TryJoin | Family::Merge | Family::Zip | Family::FutGroup | Family::StreamGroup
    )
}

fn concurrent(f: Family) -> bool {
    matches!(
        f,
        Family::Join
            | Family::TryJoin
            | Family::Race
            | Family::RaceOk
            | Family::Merge
            | Family::Zip
            | Family::FutGroup
            | Family::StreamGroup
    )
}


// ------------------------------------------------------------------ per-event hooks

/// A poll of the root after its final result (the caller's breach of the Future / Stream contract; the
/// combinators answer None again or panic). The only rules that still apply: a combinator that has produced its
/// final result has stopped polling its children (C03), and wait_until never polls its deadline again (C19).
/// The one legitimate child poll is the inner stream of a stream `wait_until`, which is a transparent adapter.
fn on_afterlife_poll(w: &mut World, id: NodeId) {
    let parent = w.node(id).parent;
    if parent == NO_NODE {
        return;
    }
    let pfam = w.node(parent).fam;
    let kids = w.node(parent).children.clone();
    if matches!(pfam, Family::WaitUntilF | Family::WaitUntilS) {
        if id != kids[0] {
            w.flag("c19.deadline_again", || format!("wait_until polled its deadline n{id} again when it was polled after the inner had ended"));
        } else if pfam == Family::WaitUntilS {
            return;
        }
    }
    let last = w.node(id).last;
    w.flag("c03.after_final", || {
        format!(
            "child n{id} (last result {}) was polled although the combinator had already produced its final result",
            last.map(|r| r.name()).unwrap_or("none")
        )
    });
}

pub fn on_poll_begin(w: &mut World, id: NodeId) {
    if w.afterlife {
        return on_afterlife_poll(w, id);
    }
    let n = w.node(id);
    let parent = n.parent;
    if n.dropped > 0 {
        w.flag("c02.child_drop", || format!("n{id} polled after it was dropped"));
    }
    let n = w.node(id);
    if n.done && matches!(n.last, Some(r) if r.is_final()) {
        let last = n.last.unwrap();
        w.flag("c03.after_done", || format!("child n{id} polled again after it returned {}", last.name()));
        if parent != NO_NODE && w.node(parent).fam == Family::RaceOk {
            w.flag("c07.repoll_failed", || format!("race_ok polled n{id} again after it had failed"));
        }
        if parent != NO_NODE && w.node(parent).fam == Family::Chain {
            w.flag("c10.back", || format!("chain went back to input n{id} after that input had returned None (evaluation must be strictly sequential)"));
        }
        if parent != NO_NODE && matches!(w.node(parent).fam, Family::WaitUntilF | Family::WaitUntilS) {
            w.flag("c19.deadline_again", || format!("wait_until polled n{id} again after it completed"));
        }
    }
    if parent != NO_NODE {
        let p = w.node(parent);
        let pfam = p.fam;
        if !p.in_poll {
            let wher = if w.root_dropping {
                "while the combinator is being dropped"
            } else if w.in_group_op {
                "inside a group operation (insert/remove/reserve/extend)"
            } else if w.node(ROOT).polls == 0 {
                "before the combinator was polled (construction)"
            } else {
                "outside a poll of the combinator that owns it"
            };
            w.flag("c03.outside_owner", || format!("n{id} polled {wher}"));
        }
        let n = w.node(id);
        if w.std_cfg && selective(pfam) && n.last == Some(Res::Pending) {
            w.stats.o_c16 += 1;
        }
        let n = w.node(id);
        if w.std_cfg && selective(pfam) && n.last == Some(Res::Pending) && !n.fired_any {
            w.flag("c16.unwoken_poll", || {
                format!(
                    "{} re-polled n{id}, which last returned Pending, although no waker handed to it was invoked since",
                    pfam.name()
                )
            });
        }
        match pfam {
            Family::Zip => {
                if let Some(v) = w.node(id).buffered {
                    w.flag("c09.overtake", || {
                        format!("zip polled input n{id} although its item v{v} for the current row is still buffered")
                    });
                }
            }
            Family::Chain => {
                let sibs = &w.node(parent).children;
                let mut early = None;
                for &s in sibs {
                    if s == id {
                        break;
                    }
                    if !(w.node(s).done && w.node(s).last == Some(Res::None)) {
                        early = Some(s);
                        break;
                    }
                }
                if let Some(s) = early {
                    w.flag("c10.order", || format!("chain polled input n{id} before earlier input n{s} returned None"));
                }
            }
            Family::WaitUntilF | Family::WaitUntilS => {
                let kids = w.node(parent).children.clone();
                if kids.len() == 2 && id == kids[0] && !w.node(kids[1]).done {
                    w.flag("c19.early_inner", || {
                        "wait_until polled the inner future/stream before the deadline resolved".to_string()
                    });
                }
                // chained form x.wait_until(d1).wait_until(d2): kids = [x, d1, d2]
                if kids.len() == 3 {
                    if id == kids[1] && !w.node(kids[2]).done {
                        w.flag("c19.early_inner", || {
                            "x.wait_until(d1).wait_until(d2): d1 (part of the inner future/stream) was polled before d2 resolved".to_string()
                        });
                    }
                    if id == kids[0] && !(w.node(kids[1]).done && w.node(kids[2]).done) {
                        w.flag("c19.early_inner", || {
                            "x.wait_until(d1).wait_until(d2): x was polled before both deadlines resolved".to_string()
                        });
                    }
                }
            }
            _ => {}
        }
    }
}


pub fn on_poll_end(w: &mut World, id: NodeId, res: Res, val: Option<u32>) {
    if w.afterlife {
        return;
    }
    let parent = w.node(id).parent;
    if parent == ROOT && w.node(ROOT).fam == Family::CoStream {
        crate::costream::on_poll_end(w, id, res, val);
    }
    if parent != NO_NODE && w.node(parent).fam == Family::Zip && res == Res::Some {
        w.node_mut(id).buffered = val;
    }
    if !w.node(id).is_leaf() && id != ROOT {
        // the family's log-relative model applies to an inner combinator exactly as to a root
        w.frame = w.node(id).frame.clone();
        let vals: Vec<u32> = val.into_iter().collect();
        let out = Out { res, key: None, vals, bogus: false };
        lr_check(w, id, &out);
        if res == Res::Pending {
            let fired = w.node(id).fired_cur;
            check_cp1(w, id, fired);
            check_c20(w, id);
        }
        if res == Res::Some && w.node(id).fam == Family::Zip {
            // inner zip produced a row: buffers consumed
            let kids = w.node(id).children.clone();
            for k in kids {
                w.node_mut(k).buffered = None;
            }
        }
    }
}

fn check_cp1(w: &mut World, p: NodeId, p_notified: bool) {
    w.stats.o_cp1 += 1;
    if p_notified {
        return;
    }
    let kids = w.node(p).children.clone();
    for c in kids {
        let n = w.node(c);
        if n.parked() && n.fired_cur && !n.removed {
            let fam = w.node(p).fam;
            w.flag("c01.cp1", || {
                format!(
                    "{} n{p} returned Pending although the most recent waker of its pending child n{c} was invoked since that child's last poll, and it neither re-polled the child nor woke the task that polled it",
                    fam.name()
                )
            });
            return;
        }
    }
}

fn check_c20(w: &mut World, p: NodeId) {
    w.stats.o_c20 += 1;
    let fam = w.node(p).fam;
    if !concurrent(fam) {
        return;
    }
    let kids = w.node(p).children.clone();
    for c in kids {
        let n = w.node(c);
        if n.polls == 0 && n.dropped == 0 && !n.removed {
            w.flag("c20.unpolled", || {
                format!("{} n{p} returned Pending although its child n{c} has never been polled", fam.name())
            });
            return;
        }
    }
}

/// CP2: called right after a waker of `node` was invoked (and returned).
pub fn after_fire(w: &mut World, node: NodeId) {
    let n = w.node(node);
    if !n.parked() || !n.fired_cur || n.removed {
        return;
    }
    let p = n.parent;
    if p == NO_NODE {
        return;
    }
    if w.node(p).in_poll {
        return; // CP1 at the end of that poll
    }
    w.stats.o_cp2 += 1;
    let pn = w.node(p);
    if p == ROOT {
        if !w.root_alive || w.root_done || w.root_dropping {
            return;
        }
        if w.node(ROOT).last != Some(Res::Pending) || w.consumer_driven() {
            return;
        }
        if !w.woken {
            let fam = pn.fam;
            w.flag("c01.cp2", || {
                format!(
                    "the most recent waker of pending child n{node} of {} was invoked between polls but the task that most recently polled the combinator was not woken",
                    fam.name()
                )
            });
        }
    } else {
        if !pn.parked() {
            return;
        }
        if !pn.fired_cur {
            let fam = pn.fam;
            w.flag("c01.cp2", || {
                format!(
                    "the most recent waker of pending child n{node} of inner {} n{p} was invoked but n{p} did not invoke the waker it was most recently polled with",
                    fam.name()
                )
            });
        }
    }
}

pub fn on_node_dropped(w: &mut World, id: NodeId) {
    let n = w.node(id);
    let parent = n.parent;
    if parent == NO_NODE {
        return;
    }
    let _ = parent;
}

// ------------------------------------------------------------------ root frame

pub fn on_root_poll_begin(w: &mut World) {
    let r = w.node(ROOT);
    if r.done {
        w.harness_error = Some("harness polled a finished root".into());
    }
    crate::group::on_root_poll_begin(w);
}

pub fn on_root_poll_end(w: &mut World, out: &Out) {
    if out.res == Res::Pending {
        let woken = w.woken;
        check_cp1(w, ROOT, woken);
        check_c20(w, ROOT);
    }
    if out.res == Res::Panic {
        return;
    }
    lr_check(w, ROOT, out);
    if w.node(ROOT).fam == Family::Zip && out.res == Res::Some {
        // a zip root produced a row: its inputs' buffered items were consumed
        let kids = w.node(ROOT).children.clone();
        for k in kids {
            w.node_mut(k).buffered = None;
        }
    }
    match w.node(ROOT).fam {
        Family::FutGroup | Family::StreamGroup => crate::group::on_root_poll_end(w, out),
        Family::CoStream => crate::costream::on_root_poll_end(w, out),
        _ => {}
    }
}

fn kid_pos(w: &World, id: NodeId) -> usize {
    w.node(ROOT).children.iter().position(|&c| c == id).unwrap_or(usize::MAX)
}

fn flat(w: &World, vals: &[u32]) -> Vec<u32> {
    let mut out = Vec::with_capacity(vals.len());
    for &v in vals {
        if (v as usize) < w.vals.len() {
            w.val_flat(v, &mut out);
        } else {
            out.push(v);
        }
    }
    out
}

/// Compare what a combinator returned with what its model requires. Values are compared after flattening
/// composites (outputs of inner combinators) into the leaf-produced values they consist of.
fn expect(w: &mut World, oracle: &'static str, out: &Out, res: Res, vals: &[u32], why: &str) {
    let differs = out.res != res
        || (res != Res::Pending
            && res != Res::None
            && !w.model.lr_res_only
            && if w.model.unit_items { out.vals.len() != flat(w, vals).len() } else { flat(w, &out.vals) != flat(w, vals) });
    if differs {
        let got = fmt_out(out);
        let want = format!("{}{}", res.name(), fmt_vals(vals));
        let who = w.model.lr_node;
        w.flag(oracle, || format!("n{who} returned {got} but the model requires {want}: {why}"));
    }
}

fn fmt_vals(v: &[u32]) -> String {
    if v.is_empty() {
        String::new()
    } else {
        format!("[{}]", v.iter().map(|x| format!("v{x}")).collect::<Vec<_>>().join(","))
    }
}
pub fn fmt_out(o: &Out) -> String {
    let k = o.key.map(|k| format!("key {k} ")).unwrap_or_default();
    format!("{} {}{}", o.res.name(), k, fmt_vals(&o.vals))
}

fn no_poll_after(w: &mut World, oracle: &'static str, i: usize, what: &str) {
    if w.frame.len() > i + 1 {
        let later = w.frame[i + 1].0;
        let decider = w.frame[i].0;
        w.flag(oracle, || {
            format!("child n{later} was polled after n{decider} {what} in the same poll")
        });
    }
}

fn lr_check(w: &mut World, node: NodeId, out: &Out) {
    let fam = w.node(node).fam;
    if matches!(fam, Family::Leaf | Family::FutGroup | Family::StreamGroup | Family::CoStream) {
        return;
    }
    if out.res == Res::Panic {
        return;
    }
    w.stats.o_lr_frames += 1;
    w.model.lr_node = node;
    // an inner race_ok reports a fresh error value of its own (its aggregate cannot be taken apart)
    w.model.lr_res_only = (node != ROOT || w.model.dyn_root) && fam == Family::RaceOk && out.res == Res::Err;
    let kids = w.node(node).children.clone();
    let all_done = kids.iter().all(|&k| w.node(k).done);
    let frame = w.frame.clone();
    match fam {
        Family::Join => {
            if all_done {
                let vals: Vec<u32> = kids.iter().map(|&k| w.node(k).final_val.unwrap_or(u32::MAX)).collect();
                expect(w, "c04.lr", out, Res::Ready, &vals, "every child has resolved; output must hold each child's value at its position, in this poll");
            } else {
                expect(w, "c04.lr", out, Res::Pending, &[], "some child has not resolved yet");
            }
        }
        Family::TryJoin => {
            if let Some(i) = frame.iter().position(|f| f.1 == Res::Err) {
                let e = frame[i].2.unwrap_or(u32::MAX);
                expect(w, "c05.lr", out, Res::Err, &[e], "a child failed in this poll; try_join must return exactly that (first observed) error now");
                no_poll_after(w, "c05.lr", i, "failed");
            } else if all_done {
                let vals: Vec<u32> = kids.iter().map(|&k| w.node(k).final_val.unwrap_or(u32::MAX)).collect();
                expect(w, "c05.lr", out, Res::Ok, &vals, "all children resolved Ok; positional output");
            } else {
                expect(w, "c05.lr", out, Res::Pending, &[], "no failure seen and some child unresolved");
            }
        }
        Family::Race => {
            if let Some(i) = frame.iter().position(|f| f.1 == Res::Ready) {
                let v = frame[i].2.unwrap_or(u32::MAX);
                expect(w, "c06.lr", out, Res::Ready, &[v], "first child seen to resolve in this poll wins");
                no_poll_after(w, "c06.lr", i, "resolved");
            } else {
                expect(w, "c06.lr", out, Res::Pending, &[], "no child resolved in this poll");
            }
        }
        Family::RaceOk => {
            if let Some(i) = frame.iter().position(|f| f.1 == Res::Ok) {
                let v = frame[i].2.unwrap_or(u32::MAX);
                expect(w, "c07.lr", out, Res::Ok, &[v], "first child seen to succeed in this poll wins");
                no_poll_after(w, "c07.lr", i, "succeeded");
            } else if all_done {
                let vals: Vec<u32> = kids.iter().map(|&k| w.node(k).final_val.unwrap_or(u32::MAX)).collect();
                expect(w, "c07.lr", out, Res::Err, &vals, "last child failed; aggregate holds each child's error at its position");
            } else {
                expect(w, "c07.lr", out, Res::Pending, &[], "no success seen and some child unresolved");
            }
        }
        Family::Merge => {
            if let Some(i) = frame.iter().position(|f| f.1 == Res::Some) {
                let v = frame[i].2.unwrap_or(u32::MAX);
                expect(w, "c08.lr", out, Res::Some, &[v], "an input polled in this poll had an item");
                no_poll_after(w, "c08.lr", i, "yielded an item");
            } else if all_done {
                expect(w, "c08.lr", out, Res::None, &[], "all inputs have returned None");
            } else {
                expect(w, "c08.lr", out, Res::Pending, &[], "no item in this poll and some input still live");
            }
            if out.res == Res::Some && node == ROOT {
                if let Some(&v) = out.vals.first() {
                    if let Some(info) = w.vals.get(v as usize) {
                        let pos = kid_pos(w, info.by) as u32;
                        w.model.yields.push(pos);
                        check_fairness(w);
                    }
                }
            }
        }
        Family::Zip => {
            if let Some(i) = frame.iter().position(|f| f.1 == Res::None) {
                expect(w, "c09.lr", out, Res::None, &[], "an input ended in this poll");
                no_poll_after(w, "c09.lr", i, "ended");
            } else if !kids.is_empty() && kids.iter().all(|&k| w.node(k).buffered.is_some()) {
                let vals: Vec<u32> = kids.iter().map(|&k| w.node(k).buffered.unwrap()).collect();
                if frame.len() < kids.len() {
                    w.stats.p_zip_late_row += 1;
                }
                expect(w, "c09.lr", out, Res::Some, &vals, "every input has its item for this row; row holds the k-th item of each input at its position");
                for &k in &kids {
                    w.node_mut(k).buffered = None;
                }
            } else {
                expect(w, "c09.lr", out, Res::Pending, &[], "row incomplete and no input ended");
            }
        }
        Family::Chain => {
            match frame.last() {
                None => {
                    if all_done {
                        expect(w, "c10.lr", out, Res::None, &[], "no inputs left");
                    } else {
                        expect(w, "c10.lr", out, Res::Pending, &[], "nothing polled");
                        w.flag("c10.lr", || "chain polled no input although one is still live".into());
                    }
                }
                Some(&(_id, r, v)) => match r {
                    Res::Some => expect(w, "c10.lr", out, Res::Some, &[v.unwrap_or(u32::MAX)], "current input yielded"),
                    Res::Pending => expect(w, "c10.lr", out, Res::Pending, &[], "current input is pending"),
                    Res::None => {
                        if all_done {
                            expect(w, "c10.lr", out, Res::None, &[], "last input ended");
                        } else {
                            w.flag("c10.lr", || "chain stopped after an input ended although a later input exists".into());
                        }
                    }
                    _ => {}
                },
            }
            for f in frame.iter().rev().skip(1) {
                if f.1 != Res::None {
                    let id = f.0;
                    w.flag("c10.lr", || format!("chain moved past input n{id} in a poll in which it did not return None"));
                }
            }
        }
        Family::WaitUntilF | Family::WaitUntilS if kids.len() == 3 => {
            // chained form: kids = [x, d1, d2]; stage = first unresolved deadline (outer first)
            let (inner, d1, d2) = (kids[0], kids[1], kids[2]);
            let count = |n: NodeId| frame.iter().filter(|f| f.0 == n).count();
            let (ci, c1, c2) = (count(inner), count(d1), count(d2));
            if !w.node(d2).done {
                if ci + c1 > 0 {
                    w.flag("c19.early_inner", || "the inner wait_until was polled while the outer deadline is pending".into());
                }
                if c2 != 1 {
                    w.flag("c19.lr", || format!("outer deadline polled {c2} times in a poll while pending (expected once)"));
                }
                expect(w, "c19.lr", out, Res::Pending, &[], "outer deadline still pending");
            } else if !w.node(d1).done {
                if ci > 0 {
                    w.flag("c19.early_inner", || "x polled while d1 is pending".into());
                }
                if c1 != 1 {
                    w.flag("c19.lr", || format!("d1 polled {c1} times in a poll while pending and the outer deadline resolved (expected once)"));
                }
                expect(w, "c19.lr", out, Res::Pending, &[], "d1 still pending");
            } else if ci != 1 {
                w.flag("c19.lr", || format!("after both deadlines resolved x must be polled exactly once per poll; polled {ci} times"));
            } else {
                let (_, r, v) = *frame.iter().find(|f| f.0 == inner).unwrap();
                let vals: Vec<u32> = v.into_iter().collect();
                expect(w, "c19.lr", out, r, &vals, "chained wait_until must behave exactly like x once both deadlines resolved");
            }
        }
        Family::WaitUntilF | Family::WaitUntilS => {
            let (inner, deadline) = (kids[0], kids[1]);
            let inner_entries: Vec<_> = frame.iter().filter(|f| f.0 == inner).collect();
            let dl_entries: Vec<_> = frame.iter().filter(|f| f.0 == deadline).collect();
            if !w.node(deadline).done {
                if !inner_entries.is_empty() {
                    w.flag("c19.early_inner", || "inner polled while the deadline is pending".into());
                }
                if dl_entries.len() != 1 {
                    let k = dl_entries.len();
                    w.flag("c19.lr", || format!("deadline polled {k} times in a poll while pending (expected once)"));
                }
                expect(w, "c19.lr", out, Res::Pending, &[], "deadline still pending");
            } else {
                if inner_entries.len() != 1 {
                    let k = inner_entries.len();
                    w.flag("c19.lr", || format!("after the deadline resolved the inner must be polled exactly once per poll (incl. the very poll in which it resolved); polled {k} times"));
                } else {
                    let (_, r, v) = *inner_entries[0];
                    let vals: Vec<u32> = v.into_iter().collect();
                    expect(w, "c19.lr", out, r, &vals, "wait_until must behave exactly like the inner once the deadline resolved");
                }
            }
        }
        _ => {}
    }
}

fn check_fairness(w: &mut World) {
    let Some(d) = w.model.distinguished else { return };
    let n = w.node(ROOT).children.len();
    let y = &w.model.yields;
    if n == 0 || y.len() < n {
        return;
    }
    let window = &y[y.len() - n..];
    if !window.contains(&d) {
        let win = format!("{window:?}");
        w.flag("c17.starved", || {
            format!("input at position {d} always has an item, yet the last {n} yields of the merge of {n} inputs came from positions {win}")
        });
    }
}

// ------------------------------------------------------------------ quiescence (bounded liveness)

/// Is the parked node `id` legitimately blocked? Err(reason) if progress is owed.
pub fn blocked(w: &World, id: NodeId) -> Result<(), (NodeId, String)> {
    let n = w.node(id);
    if n.is_leaf() {
        if n.fired_cur {
            return Err((id, format!("leaf n{id} was woken after its last poll but never polled again")));
        }
        if n.pending_events > 0 {
            return Err((id, format!("leaf n{id} still has a scheduled wake-up (harness)")));
        }
        return Ok(());
    }
    let fam = n.fam;
    let kids: Vec<NodeId> = n.children.iter().copied().filter(|&c| !w.node(c).removed && w.node(c).dropped == 0 || w.node(c).done).collect();
    let live: Vec<NodeId> = kids.iter().copied().filter(|&c| !w.node(c).done).collect();
    let sub = |c: NodeId| -> Result<(), (NodeId, String)> {
        let k = w.node(c);
        if k.polls == 0 {
            return Err((c, format!("child n{c} of {} n{id} was never polled", fam.name())));
        }
        match k.last {
            Some(Res::Pending) => blocked(w, c),
            Some(Res::Some) => Err((c, format!("child n{c} of {} n{id} yielded an item and must be polled again", fam.name()))),
            other => Err((c, format!("child n{c} in unexpected state {other:?}"))),
        }
    };
    match fam {
        Family::Join | Family::TryJoin | Family::FutGroup => {
            if fam == Family::TryJoin {
                if let Some(&c) = kids.iter().find(|&&c| w.node(c).last == Some(Res::Err)) {
                    return Err((c, format!("child n{c} failed but try_join n{id} is still pending")));
                }
            }
            if fam == Family::FutGroup {
                if let Some(&c) = kids.iter().find(|&&c| w.node(c).done && !w.node(c).removed && w.node(c).dropped == 0) {
                    return Err((c, format!("member n{c} resolved but was not yielded")));
                }
            }
            if live.is_empty() {
                return Err((id, format!("every child of {} n{id} has resolved but it is still pending", fam.name())));
            }
            for c in live {
                sub(c)?;
            }
            Ok(())
        }
        Family::Race | Family::RaceOk => {
            for &c in &kids {
                let k = w.node(c);
                if k.done && (fam == Family::Race || k.last == Some(Res::Ok)) {
                    return Err((c, format!("child n{c} resolved but {} n{id} is still pending", fam.name())));
                }
            }
            if live.is_empty() {
                return Err((id, format!("every child of {} n{id} has failed but it is still pending", fam.name())));
            }
            for c in live {
                sub(c)?;
            }
            Ok(())
        }
        Family::Merge | Family::StreamGroup => {
            if live.is_empty() {
                return Err((id, format!("every input of {} n{id} has ended but it is still pending", fam.name())));
            }
            for c in live {
                sub(c)?;
            }
            Ok(())
        }
        Family::Zip => {
            if let Some(&c) = kids.iter().find(|&&c| w.node(c).done) {
                return Err((c, format!("input n{c} ended but zip n{id} is still pending")));
            }
            let open: Vec<NodeId> = live.iter().copied().filter(|&c| w.node(c).buffered.is_none()).collect();
            if open.is_empty() {
                return Err((id, format!("zip n{id} holds a complete row but is still pending")));
            }
            for c in open {
                sub(c)?;
            }
            Ok(())
        }
        Family::Chain => match live.first() {
            None => Err((id, format!("every input of chain n{id} ended but it is still pending"))),
            Some(&c) => sub(c),
        },
        Family::WaitUntilF | Family::WaitUntilS => {
            let all = &w.node(id).children;
            if all.len() == 3 && !w.node(all[2]).done {
                return sub(all[2]);
            }
            let (inner, deadline) = (all[0], all[1]);
            if !w.node(deadline).done {
                sub(deadline)
            } else if w.node(inner).done {
                Err((inner, format!("inner of wait_until n{id} finished but it is still pending")))
            } else {
                sub(inner)
            }
        }
        Family::CoStream => crate::costream::blocked(w),
        Family::Leaf => unreachable!(),
    }
}

pub fn at_quiescence(w: &mut World) {
    if !w.root_alive || w.root_done {
        return;
    }
    if w.node(ROOT).last != Some(Res::Pending) {
        return;
    }
    w.stats.o_quiescence += 1;
    if let Err((who, why)) = blocked(w, ROOT) {
        w.flag("c01.live", || {
            format!("quiescent (no event left, no wake-up outstanding) with the root Pending, but progress is owed: {why}")
        });
        // the same situation is a C20 violation when a never-completing sibling is what the
        // combinator is (wrongly) waiting behind
        let p = w.node(who).parent;
        if p != NO_NODE && concurrent(w.node(p).fam) && w.node(p).fam != Family::Zip {
            let stalled = w.node(p).children.iter().any(|&c| {
                let k = w.node(c);
                c != who && k.is_leaf() && k.parked() && !k.fired_cur
            });
            if stalled {
                w.flag("c20.starved", || format!("a sibling that stays Pending holds up progress: {why}"));
            }
        }
        // the family properties (C04..C10, C19) state what the combinator delivers once its children have made the
        // progress that permits it; a combinator that is stuck although progress is owed delivers none of it
        if matches!(w.prop, "C04" | "C05" | "C06" | "C07" | "C08" | "C09" | "C10" | "C19") {
            w.flag_current("live", || format!("quiescent with the combinator Pending although progress is owed: {why}"));
        }
        let fam = w.node(ROOT).fam;
        match fam {
            Family::FutGroup => w.flag("c11.live", || format!("group stuck: {why}")),
            Family::StreamGroup => w.flag("c12.live", || format!("group stuck: {why}")),
            Family::CoStream => w.flag_current("stuck", || format!("concurrent stream stuck: {why}")),
            _ => {}
        }
    }
}

// ------------------------------------------------------------------ end of run

pub fn at_root_drop_end(w: &mut World) {
    crate::costream::at_root_drop_end(w);
    // no child outlives the combinator
    for id in 1..w.nodes.len() as NodeId {
        let n = w.node(id);
        if n.parent != NO_NODE && n.dropped == 0 && n.live && !n.untracked_drop {
            w.flag("c02.outlive", || format!("child n{id} is still alive after the drop of the combinator returned"));
            break;
        }
    }
}

pub fn at_end(w: &mut World) {
    w.stats.o_drop_accounting += 1;
    for id in 1..w.nodes.len() as NodeId {
        let n = w.node(id);
        if n.parent != NO_NODE && n.dropped != 1 && n.live && !n.untracked_drop {
            let d = n.dropped;
            w.flag("c02.child_drop", || format!("child n{id} dropped {d} times (expected exactly once)"));
        }
    }
    for v in 0..w.vals.len() as u32 {
        let i = &w.vals[v as usize];
        if i.dropped != 1 && !i.untracked {
            let d = i.dropped;
            let by = i.by;
            w.flag("c02.val_drop", || format!("value v{v} (produced by n{by}) dropped {d} times (expected exactly once)"));
            if by != NO_NODE && w.node(by).parent == ROOT && w.node(ROOT).fam == Family::Zip {
                w.flag("c09.unmatched", || format!("unmatched item v{v} taken by zip was dropped {d} times (expected once)"));
            }
        }
    }
    // race: losers are dropped, unfinished, together with the race future
    if w.model.flat && matches!(w.node(ROOT).fam, Family::Race) && w.node(ROOT).done {
        let kids = w.node(ROOT).children.clone();
        let winners = kids.iter().filter(|&&k| w.node(k).done).count();
        if winners > 1 {
            w.flag("c06.losers", || format!("{winners} children of race ran to completion (expected only the winner)"));
        }
        for &k in &kids {
            let d = w.node(k).dropped;
            if d != 1 && !w.node(k).untracked_drop {
                w.flag("c06.losers", || format!("child n{k} of a resolved race was dropped {d} times by the time the race future was gone (expected exactly once, together with it)"));
            }
        }
    }
    // try_join: after a failure the values already produced by siblings are dropped, not returned
    if w.model.flat && matches!(w.node(ROOT).fam, Family::TryJoin) && w.node(ROOT).last == Some(Res::Err) {
        let kids = w.node(ROOT).children.clone();
        for &k in &kids {
            let d = w.node(k).dropped;
            if d != 1 && !w.node(k).untracked_drop {
                w.flag("c05.discard", || format!("child n{k} of a failed try_join was dropped {d} times by the time the try_join future was gone (expected exactly once)"));
            }
            for v in w.node(k).produced.clone() {
                let i = &w.vals[v as usize];
                if i.returned == 0 && i.dropped != 1 && !i.untracked {
                    let d = i.dropped;
                    w.flag("c05.discard", || format!("value v{v} produced by sibling n{k} before the failure was dropped {d} times (expected: discarded exactly once, never returned)"));
                }
            }
        }
    }
}
