//! Minimisation of a failing choice trace (delta debugging) and replay files.

use crate::choice::Choices;
use crate::exec::{run, FaultSpec};
use crate::json::{self, J};
use crate::Found;

fn fails(prop: &'static str, f: &Found, trace: &[u32]) -> Option<u64> {
    let r = run(prop, Choices::from_trace(trace.to_vec()), f.faults, false);
    match &r.violation {
        Some(v) if v.oracle == f.oracle && r.key == f.key => Some(r.hash),
        _ => None,
    }
}

/// Returns the minimised trace and the number of candidates tried.
pub fn minimise(prop: &'static str, f: &Found) -> (Vec<u32>, u32) {
    let mut cur = f.trace.clone();
    let mut tried = 0u32;
    const BUDGET: u32 = 2500;
    if fails(prop, f, &cur).is_none() {
        // should not happen (replay of the original trace); keep the original
        return (cur, 0);
    }
    // 1. truncate the tail (an exhausted trace yields zeros)
    let mut keep = cur.len();
    let mut step = (cur.len() / 2).max(1);
    while step >= 1 && tried < BUDGET {
        if keep >= step {
            let cand = &cur[..keep - step];
            tried += 1;
            if fails(prop, f, cand).is_some() {
                keep -= step;
                continue;
            }
        }
        if step == 1 {
            break;
        }
        step /= 2;
    }
    cur.truncate(keep);
    // 2. delete chunks
    let mut chunk = (cur.len() / 2).max(1);
    while tried < BUDGET {
        let mut i = 0;
        let mut progress = false;
        while i + chunk <= cur.len() && tried < BUDGET {
            let mut cand = cur.clone();
            cand.drain(i..i + chunk);
            tried += 1;
            if fails(prop, f, &cand).is_some() {
                cur = cand;
                progress = true;
            } else {
                i += chunk;
            }
        }
        if chunk == 1 && !progress {
            break;
        }
        if !progress {
            chunk = (chunk / 2).max(1);
        }
    }
    // 3. zero, then halve/decrement values
    let mut progress = true;
    while progress && tried < BUDGET {
        progress = false;
        for i in 0..cur.len() {
            if cur[i] == 0 || tried >= BUDGET {
                continue;
            }
            for cand_v in [0, cur[i] / 2, cur[i] - 1] {
                if cand_v >= cur[i] {
                    continue;
                }
                let mut cand = cur.clone();
                cand[i] = cand_v;
                tried += 1;
                if fails(prop, f, &cand).is_some() {
                    cur = cand;
                    progress = true;
                    break;
                }
            }
        }
    }
    while cur.last() == Some(&0) {
        cur.pop();
    }
    (cur, tried)
}

pub fn write_replay(dir: &str, prop: &'static str, f: &Found, min_trace: &[u32], tried: u32) -> String {
    let _ = std::fs::create_dir_all(dir);
    let r = run(prop, Choices::from_trace(min_trace.to_vec()), f.faults, true);
    let path = format!("{dir}/{prop}-{}-{:016x}.json", crate::CONFIG, f.seed);
    let (oracle, msg) = match &r.violation {
        Some(v) => (v.oracle.to_string(), v.msg.clone()),
        None => (f.oracle.clone(), f.msg.clone()),
    };
    let mut o = String::new();
    o.push_str("{\n");
    o.push_str(&format!("\"property\":{},\n\"oracle\":{},\n\"config\":{},\n", json::s(prop), json::s(&oracle), json::s(crate::CONFIG)));
    o.push_str(&format!("\"signature\":{},\n", json::s(&format!("{}|{}", oracle, r.key))));
    o.push_str(&format!("\"message\":{},\n\"scenario\":{},\n", json::s(&msg), json::s(&r.describe)));
    o.push_str(&format!("\"run_seed\":{},\n\"scenario_index\":{},\n", f.seed, f.index));
    o.push_str(&format!(
        "\"faults\":{{\"cancel_after_polls\":{},\"panic_at_child_poll\":{},\"panic_at_closure_call\":{}}},\n",
        f.faults.cancel_after_polls.map(|k| k.to_string()).unwrap_or_else(|| "null".into()),
        f.faults.panic_at_child_poll,
        f.faults.panic_at_closure_call
    ));
    o.push_str(&format!("\"original_trace_len\":{},\n\"shrink_candidates_tried\":{},\n", f.trace.len(), tried));
    o.push_str(&format!("\"trace\":[{}],\n", min_trace.iter().map(|x| x.to_string()).collect::<Vec<_>>().join(",")));
    o.push_str(&format!(
        "\"trace_labels\":[{}],\n",
        r.trace.iter().map(|(l, v)| json::s(&format!("{l}={v}"))).collect::<Vec<_>>().join(",")
    ));
    o.push_str(&format!("\"log_hash\":\"{:016x}\",\n", r.hash));
    o.push_str(&format!(
        "\"narration\":[\n{}\n],\n",
        r.narration.unwrap_or_default().iter().map(|l| format!("  {}", json::s(l))).collect::<Vec<_>>().join(",\n")
    ));
    o.push_str(&format!("\"replay_cmd\":{}\n}}\n", json::s(&format!("/verif/check replay {path}"))));
    std::fs::write(&path, o).expect("write replay file");
    path
}

pub struct Replay {
    pub property: String,
    pub oracle: String,
    pub config: String,
    pub trace: Vec<u32>,
    pub faults: FaultSpec,
    pub log_hash: u64,
}

pub fn read_replay(path: &str) -> Result<Replay, String> {
    let src = std::fs::read_to_string(path).map_err(|e| e.to_string())?;
    let j = json::parse(&src)?;
    let g = |k: &str| j.get(k).ok_or(format!("missing {k}"));
    let trace = g("trace")?.as_arr().ok_or("trace")?.iter().map(|x| x.as_u64().unwrap_or(0) as u32).collect();
    let fj = g("faults")?;
    let faults = FaultSpec {
        cancel_after_polls: match fj.get("cancel_after_polls") {
            Some(J::Null) | None => None,
            Some(x) => x.as_u64().map(|v| v as u32),
        },
        panic_at_child_poll: fj.get("panic_at_child_poll").and_then(|x| x.as_u64()).unwrap_or(0) as u32,
        panic_at_closure_call: fj.get("panic_at_closure_call").and_then(|x| x.as_u64()).unwrap_or(0) as u32,
        no_faults: false,
    };
    Ok(Replay {
        property: g("property")?.as_str().ok_or("property")?.to_string(),
        oracle: g("oracle")?.as_str().ok_or("oracle")?.to_string(),
        config: g("config")?.as_str().ok_or("config")?.to_string(),
        trace,
        faults,
        log_hash: u64::from_str_radix(g("log_hash")?.as_str().ok_or("log_hash")?, 16).map_err(|e| e.to_string())?,
    })
}
