//! Reference model for FutureGroup / StreamGroup operation histories (C11, C12).
use crate::gen::{Plan, Profile};
use crate::leaf::Out;
use crate::roots::Root;
use crate::world::World;

#[derive(Default)]
pub struct GroupModel {
    pub active: bool,
}

pub fn on_root_poll_end(_w: &mut World, _out: &Out) {}

pub fn plan(w: &mut World, p: &Profile, _prop: &str) -> Plan {
    crate::gen::flat(w, p)
}

pub fn build(_plan: &Plan) -> Box<dyn Root> {
    unimplemented!()
}

pub fn op_enabled(_plan: &Plan) -> bool {
    false
}

pub fn do_op(_plan: &mut Plan, _root: &mut dyn Root) {}
