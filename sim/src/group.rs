//! FutureGroup / StreamGroup operation histories (C11, C12) and their reference model.
//!
//! The model is a map `key index -> member`. Keys are opaque to the harness (the
//! field is private); it keeps every `Key` object it was ever given and addresses
//! them by the index printed by their `Debug` impl. A stale key legitimately
//! addresses the current occupant of its slot, so the model is keyed by the key
//! *value*, not by the member. Members that entered through `Extend` /
//! `FromIterator` have an unknown key until a keyed yield or a `remove` reveals it.

use crate::gen::{Plan, Profile, Shape};
use crate::leaf::{harvest_out, KeyedItem, Out, SimFut, SimStream, Val};
use crate::roots::{GroupOps, Root};
use crate::world::{with, Ev, Family, GroupOp, NodeId, Res, World, NO_NODE, ROOT};
use futures_concurrency::future::FutureGroup;
use futures_concurrency::stream::StreamGroup;
use futures_core::Stream;
use std::collections::BTreeMap;
use std::fmt::Debug;
use std::pin::Pin;
use std::task::{Context, Poll};

#[derive(Default)]
pub struct GroupModel {
    pub active: bool,
    pub stream: bool,
    pub keyed: bool,
    /// known key -> live member
    pub live: BTreeMap<usize, NodeId>,
    /// live members whose key is not known (inserted through Extend / FromIterator)
    pub unknown: Vec<NodeId>,
    /// every key index the harness has seen
    pub keys_seen: Vec<usize>,
    pub live_at_begin: usize,
    pub last_cap: usize,
    pub ops_left: u32,
    pub saw_none: bool,
    /// a history of hundreds of operations: most members are short-lived
    pub marathon: bool,
    pub burst_pending: bool,
}

impl GroupModel {
    fn count(&self) -> usize {
        self.live.len() + self.unknown.len()
    }
    /// `key` is the key the harness recorded for member `n` (None if unknown)
    fn is_live(&self, n: NodeId, key: Option<usize>) -> bool {
        match key {
            Some(k) if self.live.get(&k) == Some(&n) => true,
            _ => self.unknown.contains(&n),
        }
    }
    fn forget(&mut self, n: NodeId, key: Option<usize>) {
        if let Some(k) = key {
            if self.live.get(&k) == Some(&n) {
                self.live.remove(&k);
                return;
            }
        }
        self.unknown.retain(|&m| m != n);
    }
    fn key_of(&self, n: NodeId, key: Option<usize>) -> Option<usize> {
        match key {
            Some(k) if self.live.get(&k) == Some(&n) => Some(k),
            _ => None,
        }
    }
    fn see(&mut self, k: usize) {
        if !self.keys_seen.contains(&k) {
            self.keys_seen.push(k);
        }
    }
}

fn pre(w: &World, suffix: &'static str) -> &'static str {
    match (w.model.group.stream, suffix) {
        (false, "lr") => "c11.lr",
        (false, "view") => "c11.view",
        (false, "insert") => "c11.insert",
        (false, "remove") => "c11.remove",
        (false, "key") => "c11.key",
        (true, "lr") => "c12.lr",
        (true, "view") => "c12.view",
        (true, "insert") => "c12.insert",
        (true, "remove") => "c12.remove",
        (true, "key") => "c12.key",
        (true, "end_drop") => "c12.end_drop",
        _ => "c11.other",
    }
}

// ------------------------------------------------------------------ planning

pub fn plan(w: &mut World, p: &Profile, prop: &str) -> Plan {
    let stream = match prop {
        "C11" => false,
        "C12" => true,
        _ => w.ch.draw("group.stream", 2) == 1,
    };
    let keyed = w.ch.draw("group.keyed", 2) == 1;
    let cap = match w.ch.draw("group.cap", 5) {
        0 => None,
        1 => Some(0),
        2 | 3 => Some(1 + w.ch.draw("group.capn", 5) as usize),
        _ => Some([7, 8, 15, 16, 31, 32, 63, 64, 65][w.ch.draw("group.capbig", 9) as usize]),
    };
    // mostly short histories; one in five is longer, one in thirty is a marathon of hundreds of operations
    // (total insertions beyond 255 while few members are alive at any time)
    let ops = match w.ch.draw("group.len", 30) {
        0 if prop != "C02" && !crate::gen::small() => 260 + w.ch.draw("group.ops.long", 120),
        1..=6 => 16 + w.ch.draw("group.ops.mid", 30),
        _ => 2 + w.ch.draw("group.ops", 14),
    };
    // construction through FromIterator (keys unknown to the harness) in one run out of six
    let from_iter = if w.ch.draw("group.from_iter", 6) == 5 { w.ch.draw("group.from_iter.n", 5) as usize } else { 0 };
    // one run in ten starts with a burst of short-lived members inserted before the first poll, so that many
    // members finish in the same poll (the deferred key-removal queue of StreamGroup is a SmallVec of 10)
    // bursts of members inserted before the first poll: usually 9..18, sometimes 33..70 (beyond any per-poll
    // budget of 32 and beyond the 22-entry inline state buffer twice over), rarely 250..310 (keys, capacity and the
    // readiness bitset cross 255/256 and several 64-bit blocks). Not the large ones for C02 (crash-point enumeration).
    let burst = match w.ch.draw("group.burst", 60) {
        0 if prop != "C02" && !crate::gen::small() => 250 + w.ch.draw("group.burst.wide", 60) as usize,
        1..=4 if prop != "C02" && !crate::gen::small() => 33 + w.ch.draw("group.burst.mid", 38) as usize,
        5..=12 => 9 + w.ch.draw("group.burst.n", 10) as usize,
        _ => 0,
    };
    let cancel_at = if p.allow_cancel && w.ch.draw("cancel", 5) == 4 { Some(w.ch.draw("cancel.at", 8)) } else { None };
    Plan {
        shape: Shape::Group { stream, keyed, cap, ops, from_iter, burst },
        leaves: Vec::new(),
        cancel_at,
        max_yields: u32::MAX,
        distinguished: None,
    }
}

// ------------------------------------------------------------------ roots

pub fn key_index<K: Debug>(k: &K) -> usize {
    // `Key(3)` -> 3 ; the field is private, Debug is the only way to read it
    let s = format!("{k:?}");
    s.chars().filter(|c| c.is_ascii_digit()).collect::<String>().parse().unwrap_or(usize::MAX)
}

macro_rules! group_root {
    ($name:ident, $group:ty, $keyed:ty, $key:ty, $mk:expr, $is_stream:expr, $extend:expr) => {
        pub enum $name {
            Plain($group, Vec<$key>),
            Keyed($keyed, Vec<$key>),
        }
        impl $name {
            fn g(&mut self) -> (&mut $group, &mut Vec<$key>) {
                match self {
                    $name::Plain(g, k) => (g, k),
                    $name::Keyed(g, k) => (&mut **g, k),
                }
            }
            /// the harness's key objects, stored at the position of their index
            fn find(keys: &[$key], idx: usize) -> Option<$key> {
                match keys.get(idx) {
                    Some(k) if key_index(k) == idx => Some(*k),
                    _ => None,
                }
            }
            fn remember(keys: &mut Vec<$key>, k: $key) {
                let idx = key_index(&k);
                // positions below a key's index hold placeholder copies until their own key is seen
                while keys.len() <= idx {
                    keys.push(k);
                }
                keys[idx] = k;
            }
        }
        impl Root for $name {
            fn poll(&mut self, cx: &mut Context<'_>) -> Out {
                match self {
                    $name::Plain(g, _) => match Pin::new(g).poll_next(cx) {
                        Poll::Pending => Out::pending(),
                        Poll::Ready(None) => Out::none(),
                        Poll::Ready(Some(v)) => harvest_out(v, Res::Some),
                    },
                    $name::Keyed(g, keys) => match Pin::new(g).poll_next(cx) {
                        Poll::Pending => Out::pending(),
                        Poll::Ready(None) => Out::none(),
                        Poll::Ready(Some((k, v))) => {
                            let idx = key_index(&k);
                            if Self::find(keys, idx).is_none() {
                                Self::remember(keys, k);
                            }
                            harvest_out(KeyedItem(idx, v), Res::Some)
                        }
                    },
                }
            }
            fn group(&mut self) -> Option<&mut dyn GroupOps> {
                Some(self)
            }
        }
        impl GroupOps for $name {
            fn insert(&mut self, node: NodeId) -> usize {
                let (g, keys) = self.g();
                let k = g.insert($mk(node));
                let idx = key_index(&k);
                if Self::find(keys, idx).is_none() {
                    Self::remember(keys, k);
                }
                idx
            }
            fn remove(&mut self, key: usize) -> Option<bool> {
                let (g, keys) = self.g();
                let k = Self::find(keys, key)?;
                Some(g.remove(k))
            }
            fn reserve(&mut self, n: usize) {
                self.g().0.reserve(n)
            }
            fn extend(&mut self, nodes: &[NodeId]) {
                let (g, _) = self.g();
                let f: fn(&mut $group, &[NodeId]) = $extend;
                f(g, nodes)
            }
            fn len(&self) -> usize {
                match self {
                    $name::Plain(g, _) => g.len(),
                    $name::Keyed(g, _) => g.len(),
                }
            }
            fn is_empty(&self) -> bool {
                match self {
                    $name::Plain(g, _) => g.is_empty(),
                    $name::Keyed(g, _) => g.is_empty(),
                }
            }
            fn capacity(&self) -> usize {
                match self {
                    $name::Plain(g, _) => g.capacity(),
                    $name::Keyed(g, _) => g.capacity(),
                }
            }
            fn contains_key(&mut self, key: usize) -> Option<bool> {
                let (g, keys) = self.g();
                let k = Self::find(keys, key)?;
                Some(g.contains_key(k))
            }
        }
    };
}

type FG = FutureGroup<SimFut<Val>>;
type SG = StreamGroup<SimStream>;

group_root!(
    FutGroupRoot,
    FG,
    futures_concurrency::future::future_group::Keyed<SimFut<Val>>,
    futures_concurrency::future::future_group::Key,
    |n| SimFut::<Val>::new(n),
    false,
    |g, nodes| g.extend(nodes.iter().map(|&n| SimFut::<Val>::new(n)))
);
group_root!(
    StreamGroupRoot,
    SG,
    futures_concurrency::stream::stream_group::Keyed<SimStream>,
    futures_concurrency::stream::stream_group::Key,
    |n| SimStream::new(n),
    true,
    |_g, _nodes| {}
);

/// Members of the initial burst: finish on their first or second poll.
fn burst_member(w: &mut World) -> NodeId {
    use crate::world::{Step, Terminal, Wake};
    let stream = w.model.group.stream;
    let mut script = Vec::new();
    // per-run bias: in half of the runs most burst members are Pending at first (woken later, or never)
    let pending_bias = w.model.group.burst_pending;
    let k = w.ch.draw("burst.kind", 6);
    match (pending_bias, k) {
        (true, 0..=3) => script.push(Step::Pend(Wake::Later(w.ch.draw("burst.delay", 3)))),
        (true, 4) => script.push(Step::Pend(Wake::NoWake)),
        (false, 0) => script.push(Step::Pend(Wake::Later(0))),
        (false, 1) if stream => script.push(Step::Item),
        _ => {}
    }
    if pending_bias && k == 4 {
        return w.new_leaf(ROOT, script, Terminal::Never, stream, false);
    }
    script.push(if stream { Step::End } else { Step::Ready { err: false } });
    w.new_leaf(ROOT, script, Terminal::Finished, stream, false)
}

pub fn build(plan: &Plan) -> Box<dyn Root> {
    let Shape::Group { stream, keyed, cap, ops, from_iter, burst } = plan.shape else { unreachable!() };
    with(|w| {
        let root = w.new_node(NO_NODE, if stream { Family::StreamGroup } else { Family::FutGroup });
        debug_assert_eq!(root, ROOT);
        let burst_pending = burst > 0 && w.ch.draw("burst.pending", 2) == 1;
        w.model.group = GroupModel { active: true, stream, keyed, ops_left: ops, marathon: ops >= 200, burst_pending, ..GroupModel::default() };
        w.emit(Ev::RootCreated { fam: w.node(ROOT).fam });
    });
    // `Default::default()` instead of `new()` in half of the runs without a capacity (StreamGroup's is derived)
    let use_default = cap.is_none() && from_iter == 0 && with(|w| w.ch.draw("group.ctor.default", 2) == 1);
    // members handed over through FromIterator: their keys are unknown to the harness
    let init: Vec<NodeId> = with(|w| {
        let v: Vec<NodeId> = (0..from_iter).map(|_| new_member(w)).collect();
        w.model.group.unknown.extend(v.iter().copied());
        w.in_group_op = true;
        v
    });
    let mut root: Box<dyn Root> = if stream {
        let g = if from_iter > 0 {
            init.iter().map(|&n| SimStream::new(n)).collect::<SG>()
        } else {
            match cap {
                None if use_default => SG::default(),
                None => SG::new(),
                Some(c) => SG::with_capacity(c),
            }
        };
        with(|w| w.model.group.last_cap = g.capacity());
        if keyed {
            Box::new(StreamGroupRoot::Keyed(g.keyed(), Vec::new()))
        } else {
            Box::new(StreamGroupRoot::Plain(g, Vec::new()))
        }
    } else {
        let g = if from_iter > 0 {
            init.iter().map(|&n| SimFut::<Val>::new(n)).collect::<FG>()
        } else {
            match cap {
                None if use_default => FG::default(),
                None => FG::new(),
                Some(c) => FG::with_capacity(c),
            }
        };
        with(|w| w.model.group.last_cap = g.capacity());
        if keyed {
            Box::new(FutGroupRoot::Keyed(g.keyed(), Vec::new()))
        } else {
            Box::new(FutGroupRoot::Plain(g, Vec::new()))
        }
    };
    with(|w| {
        w.in_group_op = false;
        for &n in &init {
            if w.node(n).polls > 0 {
                let o = pre(w, "insert");
                w.flag(o, || format!("member n{n} was polled during FromIterator::from_iter"));
            }
        }
    });
    // the initial burst goes through the ordinary insert path (keys known)
    for _ in 0..burst {
        let node = with(|w| {
            w.in_group_op = true;
            w.stats.group_ops += 1;
            burst_member(w)
        });
        let key = root.group().unwrap().insert(node);
        with(|w| {
            w.emit(Ev::Group(GroupOp::Insert { node, key }));
            w.node_mut(node).key = Some(key);
            if let Some(&other) = w.model.group.live.get(&key) {
                let o = pre(w, "insert");
                w.flag(o, || format!("insert returned key {key}, which is still held by live member n{other}"));
            }
            w.model.group.live.insert(key, node);
            w.model.group.see(key);
            w.in_group_op = false;
        });
    }
    if from_iter > 0 || burst > 0 {
        observe(root.as_mut());
    }
    root
}

// ------------------------------------------------------------------ operations

pub fn planned_ops(plan: &Plan) -> u32 {
    match plan.shape {
        Shape::Group { ops, burst, .. } => ops + burst as u32,
        _ => 0,
    }
}

pub fn op_enabled(plan: &Plan) -> bool {
    matches!(plan.shape, Shape::Group { .. }) && with(|w| w.model.group.ops_left > 0)
}

fn new_member(w: &mut World) -> NodeId {
    if w.model.group.marathon && w.ch.draw("gop.short", 4) != 0 {
        return burst_member(w);
    }
    let p = crate::gen::profile(w.prop);
    let stream = w.model.group.stream;
    let lp = if stream { crate::gen::stream_script(w, &p, false) } else { crate::gen::fut_script(w, false, &p, false, 0) };
    w.new_leaf(ROOT, lp.script, lp.term, stream, false)
}

enum Op {
    Insert(NodeId),
    Remove(usize),
    Reserve(usize),
    Extend(Vec<NodeId>),
}

pub fn do_op(_plan: &mut Plan, root: &mut dyn Root) {
    let op = with(|w| {
        w.model.group.ops_left -= 1;
        w.stats.group_ops += 1;
        let stream = w.model.group.stream;
        let have_keys = !w.model.group.keys_seen.is_empty();
        let kind = w.ch.draw("gop.kind", 12);
        let op = match kind {
            0..=5 => Op::Insert(new_member(w)),
            6..=8 if have_keys => {
                let n = w.model.group.keys_seen.len() as u32;
                let k = w.model.group.keys_seen[w.ch.draw("gop.key", n) as usize];
                Op::Remove(k)
            }
            9 => {
                let n = if w.ch.draw("gop.big", 6) == 5 { 9 + w.ch.draw("gop.rn", 56) } else { w.ch.draw("gop.rn", 9) };
                Op::Reserve(n as usize)
            }
            10 if !stream => {
                let n = w.ch.draw("gop.en", 4);
                Op::Extend((0..n).map(|_| new_member(w)).collect())
            }
            _ => Op::Insert(new_member(w)),
        };
        w.in_group_op = true;
        op
    });
    let Some(g) = root.group() else { return };
    match op {
        Op::Insert(node) => {
            let key = g.insert(node);
            with(|w| {
                w.emit(Ev::Group(GroupOp::Insert { node, key }));
                w.node_mut(node).key = Some(key);
                if w.model.group.keys_seen.contains(&key) {
                    w.stats.f_slot_reuse += 1;
                }
                if let Some(&other) = w.model.group.live.get(&key) {
                    let o = pre(w, "insert");
                    w.flag(o, || format!("insert returned key {key}, which is still held by live member n{other} (keys of live members must be distinct)"));
                }
                // an unknown-key member may hold that slot only if the implementation handed out a duplicate;
                // we cannot tell, the view checks (len) will
                w.model.group.live.insert(key, node);
                w.model.group.see(key);
                if w.node(node).polls > 0 {
                    let o = pre(w, "insert");
                    w.flag(o, || format!("member n{node} was polled during insert"));
                }
            });
        }
        Op::Remove(key) => {
            let ret = g.remove(key);
            with(|w| {
                let Some(ret) = ret else { return };
                w.emit(Ev::Group(GroupOp::Remove { key, ret }));
                let known = w.model.group.live.get(&key).copied();
                match known {
                    Some(m) => {
                        if !ret {
                            let o = pre(w, "remove");
                            w.flag(o, || format!("remove(key {key}) returned false although member n{m} with that key is live"));
                        } else {
                            w.stats.p_remove_live += 1;
                            w.model.group.live.remove(&key);
                            w.node_mut(m).removed = true;
                            if w.node(m).dropped != 1 {
                                let d = w.node(m).dropped;
                                let o = pre(w, "remove");
                                w.flag(o, || format!("remove(key {key}) returned true but member n{m} was dropped {d} times by the time it returned (expected: dropped at removal)"));
                            }
                        }
                    }
                    None => {
                        if ret {
                            // may legitimately have hit a member whose key we do not know
                            let cands: Vec<NodeId> = w.model.group.unknown.iter().copied().filter(|&m| w.node(m).dropped == 1).collect();
                            if cands.len() == 1 {
                                let m = cands[0];
                                { let k = w.node(m).key; w.model.group.forget(m, k); }
                                w.node_mut(m).removed = true;
                                w.node_mut(m).key = Some(key);
                            } else {
                                let o = pre(w, "remove");
                                w.flag(o, || format!("remove(key {key}) returned true although no live member holds that key"));
                            }
                        }
                    }
                }
            });
        }
        Op::Reserve(n) => {
            g.reserve(n);
            with(|w| w.emit(Ev::Group(GroupOp::Reserve { n })));
        }
        Op::Extend(nodes) => {
            g.extend(&nodes);
            with(|w| {
                w.emit(Ev::Group(GroupOp::Extend { nodes: nodes.clone() }));
                for &n in &nodes {
                    w.model.group.unknown.push(n);
                    if w.node(n).polls > 0 {
                        let o = pre(w, "insert");
                        w.flag(o, || format!("member n{n} was polled during extend"));
                    }
                }
            });
        }
    }
    with(|w| {
        w.in_group_op = false;
        w.group_op_since_poll = true;
    });
    observe(root);
}

/// Compare the observable set view with the model.
pub fn observe(root: &mut dyn Root) {
    let Some(g) = root.group() else { return };
    let keys: Vec<usize> = with(|w| w.model.group.keys_seen.clone());
    let (len, is_empty, cap) = (g.len(), g.is_empty(), g.capacity());
    let contains: Vec<(usize, Option<bool>)> = keys.iter().map(|&k| (k, g.contains_key(k))).collect();
    with(|w| {
        w.stats.o_group_view += 1;
        w.emit(Ev::Group(GroupOp::Observe { len, is_empty, cap }));
        let want = w.model.group.count();
        let o = pre(w, "view");
        if len != want {
            w.flag(o, || format!("len() = {len} but {want} members were inserted and neither yielded/ended nor removed"));
        }
        if is_empty != (want == 0) {
            w.flag(o, || format!("is_empty() = {is_empty} but the model has {want} live members"));
        }
        if cap < len {
            w.flag(o, || format!("capacity() = {cap} dropped below len() = {len}"));
        }
        if cap > w.model.group.last_cap && want > 0 {
            w.stats.f_growth += 1;
        }
        w.model.group.last_cap = cap;
        let any_unknown = !w.model.group.unknown.is_empty();
        for (k, got) in contains {
            let Some(got) = got else { continue };
            let known = w.model.group.live.contains_key(&k);
            if known && !got {
                w.flag(o, || format!("contains_key(key {k}) = false although a live member holds key {k}"));
            }
            if !known && got && !any_unknown {
                w.flag(o, || format!("contains_key(key {k}) = true although no live member holds key {k}"));
            }
        }
    });
}

// ------------------------------------------------------------------ poll frames

pub fn on_root_poll_begin(w: &mut World) {
    if w.model.group.active {
        w.model.group.live_at_begin = w.model.group.count();
    }
}

fn expect(w: &mut World, out: &Out, res: Res, vals: &[u32], why: &str) {
    if out.res != res || (res == Res::Some && out.vals != vals) {
        let got = crate::oracle::fmt_out(out);
        let want = format!("{}{:?}", res.name(), vals);
        let o = pre(w, "lr");
        w.flag(o, || format!("group returned {got} but the model requires {want}: {why}"));
    }
}

pub fn on_root_poll_end(w: &mut World, out: &Out) {
    if !w.model.group.active {
        return;
    }
    let stream = w.model.group.stream;
    w.stats.o_lr_frames += 1;
    let frame = w.frame.clone();
    let lr = pre(w, "lr");
    // every polled member must be live in the model
    for &(id, _, _) in &frame {
        if !{ let k = w.node(id).key; w.model.group.is_live(id, k) } {
            w.flag(lr, || format!("n{id} was polled although it is not a member of the group (yielded, ended or removed earlier)"));
        }
    }
    let mut decider: Option<usize> = None;
    let mut ended: Vec<NodeId> = Vec::new();
    for (i, &(id, res, _)) in frame.iter().enumerate() {
        match res {
            Res::Ready | Res::Some | Res::Ok | Res::Err => {
                decider = Some(i);
                break;
            }
            Res::None => ended.push(id),
            _ => {}
        }
    }
    if ended.len() >= 2 {
        w.stats.p_multi_end += 1;
    }
    if ended.len() > 10 {
        w.stats.p_multi_end_gt10 += 1;
    }
    for &m in &ended {
        { let k = w.node(m).key; w.model.group.forget(m, k); }
        if w.node(m).dropped != 1 {
            let d = w.node(m).dropped;
            w.flag("c12.end_drop", || format!("member n{m} returned None in this poll but was dropped {d} times by the end of it (expected: dropped and forgotten in that poll)"));
        }
    }
    match decider {
        Some(i) => {
            let (m, _res, val) = frame[i];
            let v = val.unwrap_or(u32::MAX);
            expect(w, out, Res::Some, &[v], "a member polled in this poll produced this value");
            if frame.len() > i + 1 {
                let later = frame[i + 1].0;
                w.flag(lr, || format!("member n{later} was polled after n{m} produced a value in the same poll"));
            }
            if w.model.group.keyed && out.res == Res::Some {
                let ko = pre(w, "key");
                match ({ let k = w.node(m).key; w.model.group.key_of(m, k) }, out.key) {
                    (Some(k), Some(got)) if k != got => {
                        w.flag(ko, || format!("item of member n{m} (inserted with key {k}) was yielded with key {got}"));
                    }
                    (None, Some(got)) => {
                        // learn the key of an Extend/FromIterator member
                        if let Some(&other) = w.model.group.live.get(&got) {
                            w.flag(ko, || format!("item of member n{m} was yielded with key {got}, which belongs to live member n{other}"));
                        } else if w.model.group.unknown.contains(&m) {
                            w.model.group.unknown.retain(|&x| x != m);
                            w.model.group.live.insert(got, m);
                            w.model.group.see(got);
                            w.node_mut(m).key = Some(got);
                        }
                    }
                    (_, None) => w.flag(ko, || "keyed group yielded an item without a key".to_string()),
                    _ => {}
                }
            }
            if !stream {
                { let k = w.node(m).key; w.model.group.forget(m, k); }
            }
        }
        None => {
            if w.model.group.live_at_begin == 0 {
                expect(w, out, Res::None, &[], "the group was empty when it was polled");
            } else if stream && w.model.group.count() == 0 {
                expect(w, out, Res::None, &[], "every member present at the start of this poll returned None during it");
            } else {
                expect(w, out, Res::Pending, &[], "members remain and none produced a value in this poll");
            }
        }
    }
    if out.res == Res::None {
        if w.model.group.saw_none {
            w.stats.p_refill += 0;
        }
        w.model.group.saw_none = true;
    } else if out.res == Res::Some && w.model.group.saw_none {
        w.stats.p_refill += 1;
        w.model.group.saw_none = false;
    }
}
