#!/usr/bin/env python3
"""Generates /verif/mutants/<name>.diff + index.json from a table of textual edits.

Each mutant is a small property-breaking change to /repo (never applied there: edits are made in a scratch
worktree under /tmp, the diff is taken and the worktree is reset). `./check mutants` applies each diff to a
fresh scratch worktree and expects the registered check of the stated property to report a violation.

usage: tools/make_mutants.py [--validate]   (--validate also builds the three feature configurations and runs
                                             the pinned test suite for every mutant and records the outcome)
"""
import json, os, subprocess, sys, shutil
from concurrent.futures import ThreadPoolExecutor

V = os.path.dirname(os.path.dirname(os.path.abspath(__file__)))
OUT = os.path.join(V, "mutants")
WT = "/tmp/verif-mutgen"

RA = "src/utils/wakers/array/readiness_array.rs"
RV = "src/utils/wakers/vec/readiness_vec.rs"
WA = "src/utils/wakers/array/waker.rs"
WV = "src/utils/wakers/vec/waker.rs"
JA, JV, JT = "src/future/join/array.rs", "src/future/join/vec.rs", "src/future/join/tuple.rs"
TA, TV, TT = "src/future/try_join/array.rs", "src/future/try_join/vec.rs", "src/future/try_join/tuple.rs"
MA, MV, MT_ = "src/stream/merge/array.rs", "src/stream/merge/vec.rs", "src/stream/merge/tuple.rs"
ZA, ZV, ZT = "src/stream/zip/array.rs", "src/stream/zip/vec.rs", "src/stream/zip/tuple.rs"
CA = "src/stream/chain/array.rs"
RCA = "src/future/race/array.rs"
ROA = "src/future/race_ok/array/mod.rs"
FG, SG = "src/future/future_group.rs", "src/stream/stream_group.rs"
FE, TFE = "src/concurrent_stream/for_each.rs", "src/concurrent_stream/try_for_each.rs"
FS, TK, EN = "src/concurrent_stream/from_stream.rs", "src/concurrent_stream/take.rs", "src/concurrent_stream/enumerate.rs"
IX = "src/utils/indexer.rs"
WUF, WUS = "src/future/wait_until.rs", "src/stream/wait_until.rs"

SETW_OLD = "            Some(prev) => prev.clone_from(parent_waker),"
SETW_NEW = "            Some(_prev) => {}"

WAKE_OLD = """        let mut readiness = self.readiness.lock().unwrap();
        if !readiness.set_ready(self.id) {
            readiness
                .parent_waker()
                .expect("`parent_waker` not available from `Readiness`. Did you forget to call `Readiness::set_waker`?")
                .wake_by_ref()
        }
"""
WAKE_NEW = """        let parent = self.readiness.lock().unwrap().parent_waker().cloned();
        if let Some(parent) = parent {
            parent.wake_by_ref();
        }
        self.readiness.lock().unwrap().set_ready(self.id);
"""

# (name, property, [(file, old, new)], note)
M = [
 ("c01_set_waker_keeps_first", "C01", [(RA, SETW_OLD, SETW_NEW), (RV, SETW_OLD, SETW_NEW)],
  "Readiness*::set_waker keeps the first parent waker: wake-ups go to a stale task waker once the executor presents a fresh one"),
 ("c01_wake_forward_inverted", "C01", [(WA, "if !readiness.set_ready(self.id) {", "if readiness.set_ready(self.id) {")],
  "InlineWakerArray::wake forwards only when the bit was already set"),
 ("c01_join_clear_after_poll", "C01", [(JA, "                readiness = this.wakers.readiness();\n", "                readiness = this.wakers.readiness();\n                readiness.clear_ready(i);\n")],
  "array join clears the child's bit again after the poll: a wake that arrived during the poll (self-wake, sibling, other thread) is erased"),
 ("c01_merge_no_rearm", "C01", [(MA, "                    this.wakers.readiness().set_ready(index);\n", "")],
  "array merge does not re-arm an input after it yielded an item"),
 ("c01_zip_no_rearm_row", "C01", [(ZA, "                        readiness.set_all_ready();\n", "")],
  "array zip does not re-arm its inputs after a full row"),
 ("c01_join_two_critical_sections", "C01", [(JA,
  "        readiness.set_waker(cx.waker());\n        if *this.pending != 0 && !readiness.any_ready() {\n            // Nothing is ready yet\n            return Poll::Pending;\n        }\n",
  "        if *this.pending != 0 && !readiness.any_ready() {\n            // Nothing is ready yet\n            #[allow(clippy::drop_non_drop)]\n            drop(readiness);\n            this.wakers.readiness().set_waker(cx.waker());\n            return Poll::Pending;\n        }\n        readiness.set_waker(cx.waker());\n")],
  "array join checks any_ready and stores the new parent waker in two critical sections: a foreign-thread wake in between is forwarded to the previous task waker (needs a lock-boundary wake + a changed waker)"),
 ("c01_vec_wake_forward_always_but_no_setbit_when_set", "C01", [(WV, "if !readiness.set_ready(self.id) {", "if readiness.set_ready(self.id) {")],
  "InlineWakerVec::wake forwards only when the bit was already set (Vec / group containers)"),
 ("c01_mt_wake_parent_before_setbit", "C01", [(WA, WAKE_OLD, WAKE_NEW), (WV, WAKE_OLD, WAKE_NEW)],
  "Inline wakers wake the parent task first and set the child's bit afterwards, in a second critical section: only a real interleaving of a foreign waker thread with the poller exposes it (engine B; engine A's atomic wakes are blind to it by construction)"),
 ("c01_set_waker_skipped_every_256th_poll", "C01", [(RA,
  "    pub(crate) fn set_waker(&mut self, parent_waker: &Waker) {\n        match &mut self.parent_waker {",
  "    pub(crate) fn set_waker(&mut self, parent_waker: &Waker) {\n        self.polls = self.polls.wrapping_add(1);\n        if self.polls == 0 && self.parent_waker.is_some() {\n            return;\n        }\n        match &mut self.parent_waker {"),
  (RA, "    parent_waker: Option<Waker>,\n}", "    parent_waker: Option<Waker>,\n    polls: u8,\n}"),
  (RA, "            parent_waker: None,\n        }", "            parent_waker: None,\n            polls: 0,\n        }")],
  "ReadinessArray keeps an 8-bit poll counter and skips storing the parent waker on every 256th poll: needs a combinator polled more than 255 times with a changed waker (marathon runs)"),
 ("c01_join_lock_held_across_child_drop", "C01", [(JA,
  "                    unsafe { ManuallyDrop::drop(fut.get_unchecked_mut()) };\n                }\n\n                // Lock readiness so we can use it again\n                readiness = this.wakers.readiness();\n",
  "                    readiness = this.wakers.readiness();\n                    unsafe { ManuallyDrop::drop(fut.get_unchecked_mut()) };\n                } else {\n                    readiness = this.wakers.readiness();\n                }\n")],
  "array join re-takes the readiness lock before it drops a completed child: a child whose destructor wakes a sibling (F14) self-deadlocks"),
 ("c02_join_completed_child_not_dropped", "C02", [(JA, "                    unsafe { ManuallyDrop::drop(fut.get_unchecked_mut()) };\n", "")],
  "array join never drops a child that completed (leak)"),
 ("c02_try_join_err_marks_ready", "C02", [(TA, "                            this.state[i].set_none();\n", "                            this.state[i].set_ready();\n")],
  "array try_join marks the failing slot Ready (regression #155): the destructor drops an output that was never written"),
 ("c02_join_completion_leaves_ready", "C02", [(JA, "                state.set_none();\n", "                let _ = &state;\n")],
  "array join leaves the states Ready after moving the outputs out: the destructor drops every output a second time"),
 ("c02_zip_drop_skips_buffered", "C02", [(ZA, "            if state.is_ready() {\n                // SAFETY: we've just filtered down to *only* the initialized values.", "            if false && state.is_ready() {\n                // SAFETY: we've just filtered down to *only* the initialized values.")],
  "array zip's destructor does not drop the items buffered for an incomplete row (leak under cancellation)"),
 ("c02_race_ok_drop_skips_errors", "C02", [(ROA, "            .filter(|(st, _err)| st.is_ready())", "            .filter(|(st, _err)| st.is_ready() && false)")],
  "array race_ok's destructor does not drop the errors collected so far (leak under cancellation)"),
 ("c03_tuple_join_no_ready_guard", "C03", [(JT, "if !readiness.clear_ready(index) || this.state[index].is_ready() {", "if !readiness.clear_ready(index) {")],
  "tuple join polls a finished child again when a stale waker of it fires"),
 ("c03_merge_no_none_guard", "C03", [(MA, "} else if !readiness.clear_ready(index) || this.state[index].is_none() {", "} else if !readiness.clear_ready(index) {")],
  "array merge polls an ended input again when a stale waker of it fires"),
 ("c03_race_ok_no_ready_guard", "C03", [(ROA, "            if st.is_ready() {\n                continue;\n            }\n", "")],
  "array race_ok polls a failed child again"),
 ("c20_race_stops_at_first_pending", "C20", [(RCA, "                Poll::Pending => continue,", "                Poll::Pending => break,")],
  "array race stops scanning at the first Pending child"),
 ("c20_group_insert_no_arm", "C20", [(FG, "        self.states[index].set_pending();\n        self.wakers.readiness().set_ready(index);\n\n        Key(index)", "        self.states[index].set_pending();\n\n        Key(index)")],
  "FutureGroup::insert does not arm the readiness bit: a member inserted into a reused slot is never polled"),
 ("c04_join_reversed_positions_large", "C04", [(JA, "                    this.items.write(i, value);", "                    this.items.write(if N > 3 { N - 1 - i } else { i }, value);")],
  "array join of more than 3 futures stores outputs at mirrored positions"),
 ("c04_join_vec_zst_output_len", "C04", [("src/utils/output/vec.rs", "        unsafe { data.set_len(self.capacity) };", "        unsafe { data.set_len(data.capacity()) };")],
  "OutputVec::take sets the length to the Vec's capacity instead of the recorded one: identical for ordinary outputs, usize::MAX elements for a zero-sized output type (needs children with zero-sized outputs)"),
 ("c05_try_join_keeps_scanning", "C05", [(TA,
  "                            this.state[i].set_none();\n                            unsafe { ManuallyDrop::drop(fut.get_unchecked_mut()) };\n\n                            return Poll::Ready(Err(err));",
  "                            this.state[i].set_none();\n                            unsafe { ManuallyDrop::drop(fut.get_unchecked_mut()) };\n\n                            first_err = Some(err);\n                            readiness = this.wakers.readiness();\n                            continue;"),
  (TA, "        // Poll all ready futures\n        for (i, mut fut) in this.futures.iter().enumerate() {\n            if this.state[i].is_pending() && readiness.clear_ready(i) {",
       "        // Poll all ready futures\n        let mut first_err = None;\n        for (i, mut fut) in this.futures.iter().enumerate() {\n            if first_err.is_some() && this.state[i].is_pending() && !readiness.clear_ready(i) {\n                continue;\n            }\n            if this.state[i].is_pending() && (first_err.is_some() || readiness.clear_ready(i)) {"),
  (TA, "        // Check whether we're all done now or need to keep going.\n        if *this.pending == 0 {\n            // Mark all data as \"consumed\" before we take it\n            *this.consumed = true;\n\n            // SAFETY: we check",
       "        if let Some(err) = first_err {\n            return Poll::Ready(Err(err));\n        }\n        // Check whether we're all done now or need to keep going.\n        if *this.pending == 0 {\n            // Mark all data as \"consumed\" before we take it\n            *this.consumed = true;\n\n            // SAFETY: we check")],
  "array try_join keeps polling the remaining ready children after a failure before it returns the error"),
 ("c06_race_returns_last_ready", "C06", [(RCA,
  "                Poll::Ready(item) => {\n                    *this.done = true;\n                    return Poll::Ready(item);\n                }\n                Poll::Pending => continue,\n            }\n        }\n        Poll::Pending",
  "                Poll::Ready(item) => {\n                    *this.done = true;\n                    out = Some(item);\n                }\n                Poll::Pending => continue,\n            }\n        }\n        if let Some(item) = out {\n            return Poll::Ready(item);\n        }\n        Poll::Pending"),
  (RCA, "        for index in this.indexer.iter() {\n            let fut", "        let mut out = None;\n        for index in this.indexer.iter() {\n            let fut")],
  "array race keeps polling after the first ready child and returns the last one of the poll"),
 ("c07_race_ok_pending_when_last_fails_same_poll", "C07", [(ROA, "        let all_completed = *this.completed == N;", "        let all_completed = *this.completed == N && N != 3;")],
  "array race_ok over exactly 3 futures never reports the aggregate error"),
 ("c08_merge_ends_early", "C08", [(MA, "                    this.state[index].set_none();\n                    if *this.complete == this.streams.len() {", "                    this.state[index].set_none();\n                    if *this.complete + 1 >= this.streams.len() && this.streams.len() > 2 {")],
  "array merge of more than 2 inputs ends when all but one input have ended"),
 ("c09_zip_ignores_none_when_row_partial", "C09", [(ZA, "                    *this.done = true;\n                    return Poll::Ready(None);", "                    if this.state.iter().all(|s| !s.is_ready()) {\n                        *this.done = true;\n                        return Poll::Ready(None);\n                    }")],
  "array zip ignores the end of an input while a row is partially filled"),
 ("c10_chain_skips_pending_input", "C10", [(CA, "                Poll::Pending => return Poll::Pending,", "                Poll::Pending => {\n                    if *this.index + 2 < *this.len {\n                        *this.index += 1;\n                        continue;\n                    }\n                    return Poll::Pending;\n                }")],
  "array chain moves past an input that is merely Pending (when at least two inputs follow)"),
 ("c11_group_keeps_key_after_yield", "C11", [(FG, "        if let Poll::Ready(Some((key, _))) = ret {\n            this.keys.remove(&key.0);\n        }", "        if let Poll::Ready(Some((key, _))) = ret {\n            let _ = &key;\n        }")],
  "FutureGroup forgets to remove the key of a member it yielded"),
 ("c12_group_none_when_any_done", "C12", [(SG, "        if done_count == stream_count {", "        if done_count > 0 && done_count + 1 >= stream_count {")],
  "StreamGroup returns None when all but one member ended in a poll"),
 ("c13_for_each_no_backpressure", "C13", [(FE, "        while this.count.load(Ordering::Relaxed) >= *this.limit {\n            this.group.next().await;\n        }", "        while this.count.load(Ordering::Relaxed) > *this.limit {\n            this.group.next().await;\n        }")],
  "for_each's back-pressure loop is off by one: limit+1 closure futures may be in flight"),
 ("c13_for_each_flush_single_step", "C13", [(FE, "        // resolved.\n        while (this.group.next().await).is_some() {}", "        // resolved.\n        let _ = this.group.next().await;")],
  "for_each's flush waits for one completion only"),
 ("c14_flush_drops_residual", "C14", [(TFE, "        if this.residual.is_some() {\n            return B::from_residual(this.residual.take().unwrap());\n        }", "        if this.residual.is_some() {\n            let _ = this.residual.take();\n        }")],
  "try_for_each's flush discards the error stored by send/progress"),
 ("c14_drive_ignores_break", "C14", [(FS, "                State::Progress(control_flow) => match control_flow {\n                    ConsumerState::Break => break,", "                State::Progress(control_flow) => match control_flow {\n                    ConsumerState::Break => continue,")],
  "FromStream::drive keeps taking source items after the consumer reported Break from progress"),
 ("c15_take_off_by_one", "C15", [(TK, "        if this.count >= this.limit {", "        if this.count > this.limit {")],
  "take(n) processes n+1 items"),
 ("c15_enumerate_counts_at_completion", "C15", [(EN, "        Poll::Ready((*this.count, item))", "        let _ = &this.count;\n        Poll::Ready((next_index(), item))"),
  (EN, "/// Takes a future and maps it to another future via a closure\n#[derive(Debug)]\n#[pin_project::pin_project]\npub struct EnumerateFuture",
       "fn next_index() -> usize {\n    use core::sync::atomic::{AtomicUsize, Ordering};\n    static NEXT: AtomicUsize = AtomicUsize::new(0);\n    NEXT.fetch_add(1, Ordering::Relaxed)\n}\n\n/// Takes a future and maps it to another future via a closure\n#[derive(Debug)]\n#[pin_project::pin_project]\npub struct EnumerateFuture")],
  "enumerate hands out the index when the future completes instead of when it is created"),
 ("c16_clear_ready_always_true", "C16", [(RA, "            true\n        } else {\n            false\n        }\n    }\n\n    /// Returns `true` if any", "            true\n        } else {\n            true\n        }\n    }\n\n    /// Returns `true` if any")],
  "ReadinessArray::clear_ready reports every child as woken: a wake of one child polls all pending children"),
 ("c16_vec_join_polls_all_pending", "C16", [(JV, "if states[i].is_pending() && readiness.clear_ready(i) {", "if states[i].is_pending() && (readiness.clear_ready(i) || true) {")],
  "Vec join polls every pending child whenever it is polled with some bit set"),
 ("c17_indexer_no_advance", "C17", [(IX, "        self.offset = (self.offset + 1).wrapping_rem(self.max);\n", "")],
  "Indexer never rotates: input 0 of a merge always wins"),
 ("c19_wait_until_polls_inner_early", "C19", [(WUF, "                State::Started => {\n                    ready!(this.deadline.as_mut().poll(cx));", "                State::Started => {\n                    if this.deadline.as_mut().poll(cx).is_pending() {\n                        if let Poll::Ready(v) = this.future.as_mut().poll(cx) {\n                            *this.state = State::Completed;\n                            return Poll::Ready(v);\n                        }\n                        return Poll::Pending;\n                    }")],
  "future wait_until polls (and may complete with) the inner future while the deadline is pending"),
 ("c19_stream_wait_until_repolls_deadline", "C19", [(WUS, "            State::Streaming => this.stream.poll_next(cx),", "            State::Streaming => {\n                let _ = this.deadline.poll(cx);\n                this.stream.poll_next(cx)\n            }")],
  "stream wait_until polls the deadline again after it resolved"),
]


def sh(cmd, cwd=None, **kw):
    return subprocess.run(cmd, cwd=cwd, stdout=subprocess.PIPE, stderr=subprocess.STDOUT, text=True, **kw)


def main():
    validate = "--validate" in sys.argv
    os.makedirs(OUT, exist_ok=True)
    if os.path.isdir(WT):
        sh(["git", "-C", "/repo", "worktree", "remove", "--force", WT])
    r = sh(["git", "-C", "/repo", "worktree", "add", "--detach", WT, "HEAD"])
    assert r.returncode == 0, r.stdout
    index = []
    old_index = {}
    try:
        old_index = {e["name"]: e for e in json.load(open(os.path.join(OUT, "index.json")))}
    except Exception:
        pass
    try:
        for name, prop, edits, note in M:
            sh(["git", "checkout", "--", "."], cwd=WT)
            ok = True
            for f, old, new in edits:
                p = os.path.join(WT, f)
                s = open(p).read()
                if s.count(old) != 1:
                    print(f"!! {name}: pattern occurs {s.count(old)} times in {f}")
                    ok = False
                    break
                open(p, "w").write(s.replace(old, new))
            if not ok:
                continue
            d = sh(["git", "diff"], cwd=WT).stdout
            open(os.path.join(OUT, name + ".diff"), "w").write(d)
            e = {"name": name, "property": prop, "patch": f"mutants/{name}.diff", "what": note,
                 "files": sorted({f for f, _, _ in edits})}
            if name in old_index and "validated" in old_index[name] and not validate:
                e["validated"] = old_index[name]["validated"]
            index.append(e)
        sh(["git", "checkout", "--", "."], cwd=WT)
    finally:
        sh(["git", "-C", "/repo", "worktree", "remove", "--force", WT])
    # the two genuine defects that were repaired: reverting a `fix:` commit must bring the report back
    for name, prop, commit, note in [
        ("revert_fix_c08_empty_merge", "C08", "3d2d4eb", "reverts the repair of the empty array/Vec merge (panics in Indexer::iter)"),
        ("revert_fix_c15_take0", "C15", "ce43740", "reverts the repair of take(0) (processes the first item)"),
        ("revert_fix_c03_race_ok_guard", "C03", "1f62ff7", "reverts the completion guard of array / Vec race_ok (children polled again when the finished future is polled again)"),
    ]:
        d = sh(["git", "-C", "/repo", "show", "-R", "--format=", commit, "--", "src"]).stdout
        open(os.path.join(OUT, name + ".diff"), "w").write(d)
        e = {"name": name, "property": prop, "patch": f"mutants/{name}.diff", "what": note, "files": ["(revert of " + commit + ")"]}
        if name in old_index and "validated" in old_index[name] and not validate:
            e["validated"] = old_index[name]["validated"]
        index.append(e)
    if validate:
        def val(e):
            wt = f"/tmp/verif-mutval-{e['name']}"
            sh(["git", "-C", "/repo", "worktree", "remove", "--force", wt])
            sh(["git", "-C", "/repo", "worktree", "add", "--detach", wt, "HEAD"])
            try:
                a = sh(["git", "apply", os.path.join(V, e["patch"])], cwd=wt)
                env = dict(os.environ, CARGO_NET_OFFLINE="true", CARGO_TARGET_DIR=os.path.join(wt, "target"))
                b1 = sh(["cargo", "build", "--offline", "--no-default-features"], cwd=wt, env=env).returncode == 0
                b2 = sh(["cargo", "build", "--offline", "--no-default-features", "--features", "alloc"], cwd=wt, env=env).returncode == 0
                t = sh(["cargo", "test", "--workspace", "--no-fail-fast", "--offline"], cwd=wt, env=env, timeout=1500)
                failed = [l for l in t.stdout.splitlines() if l.startswith("test ") and l.rstrip().endswith("FAILED")]
                e["validated"] = {"applies": a.returncode == 0, "builds_nostd": b1, "builds_alloc": b2,
                                  "tests_pass": t.returncode == 0, "failed_tests": failed[:6]}
            except subprocess.TimeoutExpired:
                e["validated"] = {"applies": True, "tests_pass": False, "failed_tests": ["<timeout: test suite hangs>"]}
            finally:
                sh(["git", "-C", "/repo", "worktree", "remove", "--force", wt])
                shutil.rmtree(wt, ignore_errors=True)
            print(e["name"], e["validated"], flush=True)
        with ThreadPoolExecutor(max_workers=6) as ex:
            list(ex.map(val, index))
    json.dump(index, open(os.path.join(OUT, "index.json"), "w"), indent=1)
    print(f"{len(index)} mutants written to {OUT}")


if __name__ == "__main__":
    main()
