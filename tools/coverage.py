#!/usr/bin/env python3
"""Reach measurement: which lines of /repo/src do the simulated workloads execute?

Builds engine A with `-C instrument-coverage` on the nightly toolchain (its llvm-tools are installed) in a scratch
directory under /tmp, runs every property's workload (30 000 scenarios each) per feature configuration, and prints
line coverage per file of /repo/src plus every uncovered line. Not a check: it informs the workload design
(an uncovered line that is not a Debug/Default impl or dead code means a blind spot). Scratch output is removed.

usage: tools/coverage.py [std|alloc|nostd ...]      (default: all three)
"""
import glob, os, shutil, subprocess, sys

V = os.path.dirname(os.path.dirname(os.path.abspath(__file__)))
SCR = "/tmp/verif-cov"
TOOLS = os.path.expanduser("~/.rustup/toolchains/nightly-x86_64-unknown-linux-gnu/lib/rustlib/x86_64-unknown-linux-gnu/bin")
PROPS = ["C%02d" % i for i in range(1, 21) if i != 18]
ONLY = {"C11": ("std", "alloc"), "C12": ("std", "alloc"), "C13": ("std", "alloc"), "C14": ("std", "alloc"), "C15": ("std", "alloc"), "C16": ("std",)}


def main():
    cfgs = sys.argv[1:] or ["std", "alloc", "nostd"]
    shutil.rmtree(SCR, ignore_errors=True)
    os.makedirs(SCR)
    env = dict(os.environ, CARGO_NET_OFFLINE="true")
    for cfg in cfgs:
        tgt = os.path.join(SCR, "target-" + cfg)
        r = subprocess.run(["cargo", "+nightly", "build", "--release", "--offline", "--features", "cfg-" + cfg, "--config",
                            'build.rustflags=["--cfg","futures_concurrency_verif","-C","instrument-coverage"]'],
                           cwd=os.path.join(V, "sim"), env=dict(env, CARGO_TARGET_DIR=tgt, LLVM_PROFILE_FILE=os.path.join(SCR, "build-%p.profraw")), stdout=subprocess.PIPE, stderr=subprocess.STDOUT, text=True)
        if r.returncode != 0:
            print(r.stdout[-3000:])
            return 2
        binp = os.path.join(tgt, "release", "fcsim")
        for p in PROPS:
            if cfg not in ONLY.get(p, ("std", "alloc", "nostd")):
                continue
            subprocess.run([binp, "check", "--prop", p, "--runs", "30000", "--threads", "8", "--replay-dir", SCR, "--out", os.devnull],
                           env=dict(env, LLVM_PROFILE_FILE=os.path.join(SCR, f"{cfg}-{p}-%p.profraw")), stdout=subprocess.DEVNULL, stderr=subprocess.DEVNULL)
        prof = os.path.join(SCR, cfg + ".profdata")
        subprocess.run([os.path.join(TOOLS, "llvm-profdata"), "merge", "-sparse"] + glob.glob(os.path.join(SCR, cfg + "-*.profraw")) + ["-o", prof], check=True)
        rep = subprocess.run([os.path.join(TOOLS, "llvm-cov"), "report", binp, "-instr-profile=" + prof,
                              "--ignore-filename-regex=(registry|rustc|rustup|verif/sim|verif_sync)"], stdout=subprocess.PIPE, text=True).stdout
        print(f"## configuration {cfg}")
        files = []
        for l in rep.splitlines():
            f = l.split()
            if len(f) >= 10 and (f[0].endswith(".rs") or f[0] == "TOTAL"):
                print(f"{f[0]:<58} lines={f[7]:>5} missed={f[8]:>4} {f[9]:>8}")
                if f[0].endswith(".rs") and f[8] != "0":
                    cands = [f[0], "/" + f[0], "/repo/src/" + f[0], "/repo/" + f[0]]
                    files.append(next((c for c in cands if os.path.isfile(c)), f[0]))
        print("### uncovered lines")
        for f in files:
            show = subprocess.run([os.path.join(TOOLS, "llvm-cov"), "show", binp, "-instr-profile=" + prof, f], stdout=subprocess.PIPE, text=True).stdout
            miss = [l for l in show.splitlines() if "|      0|" in l]
            if miss:
                print(f"--- {f}")
                for l in miss:
                    print(l)
    shutil.rmtree(SCR, ignore_errors=True)
    return 0


if __name__ == "__main__":
    sys.exit(main())
