#!/usr/bin/env python3
"""Confirms seeded changes written by independent sub-agents and files them under /verif/seeded/<id>/.

For every /tmp/seed/<PROP>/seeded_out/<x>/ not yet filed: in a fresh scratch worktree of /repo (removed afterwards)
  1. the demonstration passes on the unchanged tree,
  2. the patch applies, the crate builds in the three feature configurations,
  3. the pinned test suite (cargo test --workspace --no-fail-fast --offline) still passes with the change,
  4. the demonstration fails with the change.
Only changes for which all four hold are kept (patch.diff, demo.rs, meta.json with a `confirmed` record).
"""
import json, os, shutil, subprocess, sys
from concurrent.futures import ThreadPoolExecutor

V = os.path.dirname(os.path.dirname(os.path.abspath(__file__)))
SRC = os.environ.get("SEED_SRC", "/tmp/seed")
DST = os.path.join(V, "seeded")


def sh(cmd, cwd=None, env=None, timeout=1800):
    try:
        return subprocess.run(cmd, cwd=cwd, env=env, stdout=subprocess.PIPE, stderr=subprocess.STDOUT, text=True, timeout=timeout)
    except subprocess.TimeoutExpired as e:
        class R:  # noqa
            returncode = 124
            stdout = "TIMEOUT " + (e.stdout or "")[-500:] if isinstance(e.stdout, str) else "TIMEOUT"
        return R()


def confirm(prop, x):
    name = f"{prop}-{x}"
    try:
        real_prop = json.load(open(os.path.join(SRC, prop, "PROPERTY.json")))["id"]
    except Exception:
        real_prop = prop
    src = os.path.join(SRC, prop, "seeded_out", x)
    dst = os.path.join(DST, name)
    if os.path.isdir(dst) or not os.path.isfile(os.path.join(src, "patch.diff")):
        return None
    wt = f"/tmp/verif-seedchk/{name}"
    os.makedirs("/tmp/verif-seedchk", exist_ok=True)
    sh(["git", "-C", "/repo", "worktree", "remove", "--force", wt])
    shutil.rmtree(wt, ignore_errors=True)
    sh(["git", "-C", "/repo", "worktree", "add", "--detach", wt, "HEAD"])
    env = dict(os.environ, CARGO_NET_OFFLINE="true", CARGO_TARGET_DIR=os.path.join(wt, "target"))
    rec = {}
    try:
        meta = json.load(open(os.path.join(src, "meta.json")))
        demo = os.path.join(src, "demo.rs")
        shutil.copy(demo, os.path.join(wt, "tests", "seeded_demo.rs"))
        extra = meta.get("demo_test_args", [])
        r = sh(["cargo", "test", "--offline", "--test", "seeded_demo"] + extra, cwd=wt, env=env)
        rec["demo_passes_without_change"] = r.returncode == 0
        a = sh(["git", "apply", os.path.join(src, "patch.diff")], cwd=wt)
        rec["patch_applies"] = a.returncode == 0
        rec["builds_std"] = sh(["cargo", "build", "--offline"], cwd=wt, env=env).returncode == 0
        rec["builds_alloc"] = sh(["cargo", "build", "--offline", "--no-default-features", "--features", "alloc"], cwd=wt, env=env).returncode == 0
        rec["builds_nostd"] = sh(["cargo", "build", "--offline", "--no-default-features"], cwd=wt, env=env).returncode == 0
        r = sh(["cargo", "test", "--offline", "--test", "seeded_demo"] + extra, cwd=wt, env=env)
        rec["demo_fails_with_change"] = r.returncode not in (0, 124)
        rec["demo_failure_excerpt"] = [l for l in r.stdout.splitlines() if "panicked" in l or "FAILED" in l or "assert" in l][:4]
        os.remove(os.path.join(wt, "tests", "seeded_demo.rs"))
        t = sh(["cargo", "test", "--workspace", "--no-fail-fast", "--offline"], cwd=wt, env=env, timeout=2400)
        rec["existing_tests_pass_with_change"] = t.returncode == 0
        rec["existing_tests_summary"] = [l.strip() for l in t.stdout.splitlines() if l.startswith("test result:")][:6]
        ok = all(rec[k] for k in ("demo_passes_without_change", "patch_applies", "builds_std", "builds_alloc", "builds_nostd",
                                  "demo_fails_with_change", "existing_tests_pass_with_change"))
        rec["kept"] = ok
        rec["ran"] = ["cargo test --offline --test seeded_demo (clean HEAD, then with patch)", "cargo build --offline x3 feature configurations",
                      "cargo test --workspace --no-fail-fast --offline (with patch)"]
        if ok:
            os.makedirs(dst, exist_ok=True)
            shutil.copy(os.path.join(src, "patch.diff"), os.path.join(dst, "patch.diff"))
            shutil.copy(demo, os.path.join(dst, "demo.rs"))
            meta["property"] = real_prop
            if os.path.isfile(os.path.join(SRC, prop, "FOCUS.txt")):
                meta["focus_given_to_the_author"] = open(os.path.join(SRC, prop, "FOCUS.txt")).read().strip()
            meta["origin"] = "written by an independent sub-agent given only the property text and a scratch worktree"
            meta["confirmed"] = rec
            json.dump(meta, open(os.path.join(dst, "meta.json"), "w"), indent=1)
    except Exception as e:  # noqa
        rec["error"] = repr(e)
    finally:
        sh(["git", "-C", "/repo", "worktree", "remove", "--force", wt])
        shutil.rmtree(wt, ignore_errors=True)
    print(name, json.dumps({k: v for k, v in rec.items() if k not in ("ran", "existing_tests_summary", "demo_failure_excerpt")}), flush=True)
    return rec


def main():
    jobs = []
    for prop in sorted(os.listdir(SRC)):
        d = os.path.join(SRC, prop, "seeded_out")
        if os.path.isdir(d):
            for x in sorted(os.listdir(d)):
                jobs.append((prop, x))
    with ThreadPoolExecutor(max_workers=int(os.environ.get("JOBS", "3"))) as ex:
        list(ex.map(lambda j: confirm(*j), jobs))


if __name__ == "__main__":
    main()
