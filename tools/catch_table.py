#!/usr/bin/env python3
"""Prints the markdown tables of DESIGN.md §11 from mutants/results.json and seeded/results.json."""
import json, os
V = os.path.dirname(os.path.dirname(os.path.abspath(__file__)))


def load(p):
    try:
        return json.load(open(os.path.join(V, p)))
    except Exception:
        return None


def row(name, prop, what, res):
    own = res["results"].get(prop, {})
    killed = own.get("rc") == 1
    also = sorted(p for p, x in res["results"].items() if x.get("rc") == 1 and p != prop and not (p == "C03" and res.get("base")))
    orc = ", ".join(o for o in own.get("oracles", []) if not o.startswith("VIOLATION"))
    what = what.replace("|", "/").replace("\n", " ")
    if len(what) > 230:
        what = what[:227] + "..."
    return f"| {name} | {prop} | {what} | {'**yes** (' + orc + ')' if killed else '**no**'} | {', '.join(also) or '—'} |"


def main():
    m = load("mutants/results.json")
    idx = {e["name"]: e for e in (load("mutants/index.json") or [])}
    if m:
        print("### Own mutants (`./check mutants`, quick tier, seed %s)\n" % m.get("seed"))
        print("| mutant | property | change | killed by its own check (oracles) | other checks that also report it |")
        print("|---|---|---|---|---|")
        for r in m["results"]:
            print(row(r["name"], r["property"], idx.get(r["name"], {}).get("what", ""), r))
        k = sum(1 for r in m["results"] if r.get("killed"))
        print(f"\n{k} of {len(m['results'])} killed by the check of their own property.\n")
    s = load("seeded/results.json")
    if s:
        print("### Changes seeded by independent sub-agents (`./check mutants --seeded --all-props`, quick tier, seed %s)\n" % s.get("seed"))
        print("| id | property | change (author's summary) | caught by the check of its property (oracles) | other checks that report it |")
        print("|---|---|---|---|---|")
        for r in s["results"]:
            meta = load(f"seeded/{r['name']}/meta.json") or {}
            print(row(r["name"], r["property"], meta.get("summary", ""), r))
        k = sum(1 for r in s["results"] if r.get("killed"))
        anyk = sum(1 for r in s["results"] if any(x.get("rc") == 1 for x in r["results"].values()))
        print(f"\n{k} of {len(s['results'])} caught by the check of the property they were written against; {anyk} of {len(s['results'])} caught by at least one registered check.\n")


if __name__ == "__main__":
    main()
