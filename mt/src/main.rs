#![allow(dead_code, clippy::all)]
//! fcmt — engine B: the real crate under shuttle's controlled scheduler.
//!
//! One shuttle execution = one poller thread (mini executor with generation-strict task
//! wakers and a bounded number of spurious polls) + 1..3 producer threads which make
//! channel-like children ready and invoke the wakers those children stored — by value, by
//! reference, twice, through a stale clone — while the poller may be inside `poll`.
//! The readiness `Mutex` of the crate is `shuttle::sync::Mutex` (hook in /repo, flavour
//! `futures_concurrency_verif = "shuttle"`), so every lock boundary on either side is a
//! scheduling point owned by the seeded scheduler. Oracles: shuttle's deadlock detector
//! (poller parked on its condvar with every producer finished = lost wake-up), any panic,
//! positional / multiset results, exactly-once drop counters.

use futures_concurrency::future::{FutureGroup, Join, TryJoin};
use futures_concurrency::stream::{Merge, StreamGroup, Zip};
use futures_core::Stream;
use shuttle::rand::{thread_rng, Rng};
use shuttle::scheduler::{PctScheduler, RandomScheduler};
use shuttle::sync::{Condvar, Mutex};
use shuttle::{thread, Config, FailurePersistence, MaxSteps, Runner};
use std::collections::{BTreeMap, HashSet, VecDeque};
use std::future::Future;
use std::panic::{catch_unwind, AssertUnwindSafe};
use std::pin::Pin;
use std::sync::atomic::{AtomicBool, AtomicU32, AtomicU64, AtomicU8, Ordering};
use std::sync::Arc;
use std::task::{Context, Poll, Wake, Waker};
use std::time::Instant;

// ------------------------------------------------------------------ accounting

const MAXC: usize = 8;
const MAXV: usize = 64;

struct Acct {
    child_drops: [AtomicU8; MAXC],
    child_polls: [AtomicU8; MAXC],
    val_created: [AtomicU8; MAXV],
    val_dropped: [AtomicU8; MAXV],
    /// outcome trace hash (poll results, yields), for the distinct-interleavings measure
    trace: AtomicU64,
    pendings: AtomicU32,
    wakes_mid_poll: AtomicU32,
    in_poll: AtomicBool,
    /// drops of values / children that were never created (bad canary or index)
    bogus: AtomicU32,
}

impl Acct {
    fn new() -> Arc<Acct> {
        Arc::new(Acct {
            child_drops: Default::default(),
            child_polls: Default::default(),
            val_created: std::array::from_fn(|_| AtomicU8::new(0)),
            val_dropped: std::array::from_fn(|_| AtomicU8::new(0)),
            trace: AtomicU64::new(0xcbf2_9ce4_8422_2325),
            pendings: AtomicU32::new(0),
            wakes_mid_poll: AtomicU32::new(0),
            in_poll: AtomicBool::new(false),
            bogus: AtomicU32::new(0),
        })
    }
    fn note(&self, x: u64) {
        let mut a = self.trace.load(Ordering::Relaxed);
        a ^= x;
        a = a.wrapping_mul(0x0000_0100_0000_01B3);
        a ^= a >> 29;
        self.trace.store(a, Ordering::Relaxed);
    }
}

/// Per-execution context. Shuttle runs every task of an execution as a coroutine on the OS thread that
/// called `Runner::run`, so an OS thread-local is shared by poller and producers of one execution.
/// Handles given to the code under test (children, values) are plain integers: a variant of the crate
/// that drops one twice or "drops" bytes it never wrote yields a clean report, not heap corruption.
struct Ctx {
    acct: Arc<Acct>,
    chans: Vec<Sh>,
}
thread_local! {
    static CUR: std::cell::RefCell<Option<Ctx>> = const { std::cell::RefCell::new(None) };
}
fn cur_acct() -> Arc<Acct> {
    CUR.with(|c| c.borrow().as_ref().expect("no context").acct.clone())
}
fn cur_chan(i: usize) -> Sh {
    CUR.with(|c| c.borrow().as_ref().expect("no context").chans[i].clone())
}

struct Tracked {
    id: u32,
    canary: u32,
}
fn canary(id: u32) -> u32 {
    id.wrapping_mul(0x9E37_79B1) ^ 0x5EED_F00D
}
impl Tracked {
    fn new(id: u32, acct: &Arc<Acct>) -> Tracked {
        acct.val_created[id as usize].fetch_add(1, Ordering::Relaxed);
        Tracked { id, canary: canary(id) }
    }
}
impl Drop for Tracked {
    fn drop(&mut self) {
        let a = cur_acct();
        if self.canary != canary(self.id) || self.id as usize >= MAXV {
            a.bogus.fetch_add(1, Ordering::Relaxed);
        } else {
            a.val_dropped[self.id as usize].fetch_add(1, Ordering::Relaxed);
        }
    }
}
impl std::fmt::Debug for Tracked {
    fn fmt(&self, f: &mut std::fmt::Formatter<'_>) -> std::fmt::Result {
        write!(f, "v{}", self.id)
    }
}

fn vid(child: usize, seq: usize) -> u32 {
    (child * 8 + seq) as u32
}

// ------------------------------------------------------------------ channel-like children

#[derive(Default)]
struct Chan {
    /// future: completed; stream: closed
    done: bool,
    err: bool,
    queue: VecDeque<u32>,
    waker: Option<Waker>,
    stale: Option<Waker>,
}
type Sh = Arc<Mutex<Chan>>;

struct ChanFut {
    idx: usize,
    finished: bool,
}
impl Drop for ChanFut {
    fn drop(&mut self) {
        let a = cur_acct();
        match a.child_drops.get(self.idx) {
            Some(c) => {
                c.fetch_add(1, Ordering::Relaxed);
            }
            None => {
                a.bogus.fetch_add(1, Ordering::Relaxed);
            }
        }
    }
}
fn store_waker(g: &mut Chan, cx: &Context<'_>) {
    match &g.waker {
        Some(w) if w.will_wake(cx.waker()) => {}
        _ => {
            let old = g.waker.replace(cx.waker().clone());
            if old.is_some() {
                g.stale = old;
            }
        }
    }
}
impl Future for ChanFut {
    type Output = Result<Tracked, Tracked>;
    fn poll(mut self: Pin<&mut Self>, cx: &mut Context<'_>) -> Poll<Self::Output> {
        if self.finished {
            panic!("ORACLE c03.mt_repoll: child {} polled again after it returned Ready", self.idx);
        }
        let acct = cur_acct();
        acct.child_polls[self.idx].fetch_add(1, Ordering::Relaxed);
        let ch = cur_chan(self.idx);
        let mut g = ch.lock().unwrap();
        if g.done {
            let err = g.err;
            drop(g);
            self.finished = true;
            let v = Tracked::new(vid(self.idx, 0), &acct);
            Poll::Ready(if err { Err(v) } else { Ok(v) })
        } else {
            store_waker(&mut g, cx);
            Poll::Pending
        }
    }
}
/// infallible view of a channel future
struct OkFut(ChanFut);
impl Future for OkFut {
    type Output = Tracked;
    fn poll(mut self: Pin<&mut Self>, cx: &mut Context<'_>) -> Poll<Tracked> {
        match Pin::new(&mut self.0).poll(cx) {
            Poll::Pending => Poll::Pending,
            Poll::Ready(Ok(v)) | Poll::Ready(Err(v)) => Poll::Ready(v),
        }
    }
}

struct ChanStream {
    idx: usize,
    finished: bool,
}
impl Drop for ChanStream {
    fn drop(&mut self) {
        let a = cur_acct();
        match a.child_drops.get(self.idx) {
            Some(c) => {
                c.fetch_add(1, Ordering::Relaxed);
            }
            None => {
                a.bogus.fetch_add(1, Ordering::Relaxed);
            }
        }
    }
}
impl Stream for ChanStream {
    type Item = Tracked;
    fn poll_next(mut self: Pin<&mut Self>, cx: &mut Context<'_>) -> Poll<Option<Tracked>> {
        if self.finished {
            panic!("ORACLE c03.mt_repoll: stream {} polled again after it returned None", self.idx);
        }
        let acct = cur_acct();
        acct.child_polls[self.idx].fetch_add(1, Ordering::Relaxed);
        let ch = cur_chan(self.idx);
        let mut g = ch.lock().unwrap();
        if let Some(v) = g.queue.pop_front() {
            drop(g);
            Poll::Ready(Some(Tracked::new(v, &acct)))
        } else if g.done {
            drop(g);
            self.finished = true;
            Poll::Ready(None)
        } else {
            store_waker(&mut g, cx);
            Poll::Pending
        }
    }
}

// ------------------------------------------------------------------ mini executor (poller side)

struct ExecSt {
    newest: u32,
    woken: bool,
}
struct Exec {
    m: Mutex<ExecSt>,
    cv: Condvar,
}
struct TaskWaker {
    gen: u32,
    ex: Arc<Exec>,
}
impl Wake for TaskWaker {
    fn wake(self: Arc<Self>) {
        self.wake_by_ref()
    }
    fn wake_by_ref(self: &Arc<Self>) {
        let mut g = self.ex.m.lock().unwrap();
        // only the waker of the most recent poll is required to be honoured
        if g.newest == self.gen {
            g.woken = true;
            self.ex.cv.notify_one();
        }
    }
}

struct Poller {
    ex: Arc<Exec>,
    cur: Option<Waker>,
    fresh_pct: u32,
    spurious: u32,
    polls: u32,
    cancel_at: Option<u32>,
    acct: Arc<Acct>,
}
enum Next {
    Poll,
    Cancel,
}
impl Poller {
    fn waker(&mut self) -> Waker {
        let fresh = self.cur.is_none() || thread_rng().gen_range(0u32..100) < self.fresh_pct;
        let mut g = self.ex.m.lock().unwrap();
        if fresh {
            g.newest += 1;
            self.cur = Some(Waker::from(Arc::new(TaskWaker { gen: g.newest, ex: self.ex.clone() })));
        }
        g.woken = false;
        self.cur.clone().unwrap()
    }
    /// after a Pending: wait for a wake-up (or poll spuriously / cancel)
    fn after_pending(&mut self) -> Next {
        self.acct.pendings.fetch_add(1, Ordering::Relaxed);
        if self.cancel_at == Some(self.polls) {
            return Next::Cancel;
        }
        if self.spurious > 0 && thread_rng().gen_range(0u32..3) == 0 {
            self.spurious -= 1;
            self.acct.note(0x5105);
            return Next::Poll;
        }
        let mut g = self.ex.m.lock().unwrap();
        while !g.woken {
            g = self.ex.cv.wait(g).unwrap();
        }
        Next::Poll
    }
    fn drive_future<F: Future>(&mut self, fut: F) -> Option<F::Output> {
        let mut fut = Box::pin(fut);
        if self.cancel_at == Some(0) {
            return None;
        }
        loop {
            let wk = self.waker();
            let mut cx = Context::from_waker(&wk);
            self.polls += 1;
            self.acct.in_poll.store(true, Ordering::Relaxed);
            let r = fut.as_mut().poll(&mut cx);
            self.acct.in_poll.store(false, Ordering::Relaxed);
            match r {
                Poll::Ready(v) => {
                    self.acct.note(0xA1);
                    return Some(v);
                }
                Poll::Pending => {
                    self.acct.note(0xA0);
                    if let Next::Cancel = self.after_pending() {
                        return None;
                    }
                }
            }
        }
    }
    /// Drives a stream to its end; `between` is called after every yielded item (group inserts).
    fn drive_stream<S: Stream + Unpin>(&mut self, st: &mut S, mut on_item: impl FnMut(&mut S, S::Item)) -> bool {
        if self.cancel_at == Some(0) {
            return false;
        }
        loop {
            let wk = self.waker();
            let mut cx = Context::from_waker(&wk);
            self.polls += 1;
            self.acct.in_poll.store(true, Ordering::Relaxed);
            let r = Pin::new(&mut *st).poll_next(&mut cx);
            self.acct.in_poll.store(false, Ordering::Relaxed);
            match r {
                Poll::Ready(Some(v)) => {
                    self.acct.note(0xB1);
                    on_item(st, v);
                    if self.cancel_at == Some(self.polls) {
                        return false;
                    }
                }
                Poll::Ready(None) => {
                    self.acct.note(0xB2);
                    return true;
                }
                Poll::Pending => {
                    self.acct.note(0xB0);
                    if let Next::Cancel = self.after_pending() {
                        return false;
                    }
                }
            }
        }
    }
}

// ------------------------------------------------------------------ producers (foreign wakers)

fn fire(ch: &Sh, acct: &Acct) {
    let (cur, stale) = {
        let g = ch.lock().unwrap();
        (g.waker.clone(), g.stale.clone())
    };
    let Some(cur) = cur else { return };
    if acct.in_poll.load(Ordering::Relaxed) {
        acct.wakes_mid_poll.fetch_add(1, Ordering::Relaxed);
    }
    match thread_rng().gen_range(0u32..6) {
        0 => cur.wake_by_ref(),
        1 => cur.wake(),
        2 => {
            cur.wake_by_ref();
            cur.wake();
        }
        3 => {
            if let Some(s) = stale {
                s.wake();
            }
            cur.wake();
        }
        4 => {
            cur.wake_by_ref();
            if let Some(s) = stale {
                s.wake_by_ref();
            }
        }
        _ => cur.wake(),
    }
}

#[derive(Clone, Copy)]
struct ChildPlan {
    items: usize,
    err: bool,
}

fn producer(chans: Vec<(Sh, ChildPlan, bool)>, acct: Arc<Acct>) {
    // interleave the steps of the children this thread owns
    let mut left: Vec<(Sh, usize, ChildPlan, bool)> = chans.into_iter().map(|(c, p, s)| (c, 0usize, p, s)).collect();
    while !left.is_empty() {
        let i = thread_rng().gen_range(0..left.len());
        let (ch, step, plan, is_stream) = &mut left[i];
        let idx_done;
        {
            let mut g = ch.lock().unwrap();
            if *is_stream && *step < plan.items {
                g.queue.push_back(*step as u32); // value id is fixed up by the caller's base
                idx_done = false;
            } else {
                g.done = true;
                g.err = plan.err;
                idx_done = true;
            }
        }
        *step += 1;
        let ch2 = ch.clone();
        if idx_done {
            left.remove(i);
        }
        fire(&ch2, &acct);
    }
}

// ------------------------------------------------------------------ scenarios

#[derive(Clone, Copy, Debug, PartialEq, Eq)]
enum Fam {
    JoinArr3,
    JoinVec,
    JoinTup3,
    TryJoinArr3,
    TryJoinVec,
    MergeArr3,
    MergeVec,
    MergeTup2,
    ZipArr2,
    ZipVec,
    FutGroup,
    StreamGroup,
    /// join((join([f0, f1]), join(vec![f2]), f3)) — sub-wakers of an inner combinator forward into sub-wakers of the outer one
    JoinNest,
    /// merge((merge([s0, s1]), merge(vec![s2, s3])))
    MergeNest,
    /// FutureGroup of two array joins
    GroupOfJoins,
    /// StreamGroup of two array merges
    GroupOfMerges,
    /// zip([merge([s0, s1]), merge(vec![s2, s3])]) — an inner stream held back by the zip while producers keep firing
    ZipOfMerges,
    /// keyed groups: a member is removed between polls while its producer may be firing its waker
    FutGroupRemove,
    StreamGroupRemove,
}
const FAMS: [Fam; 19] = [
    Fam::JoinArr3,
    Fam::JoinVec,
    Fam::JoinTup3,
    Fam::TryJoinArr3,
    Fam::TryJoinVec,
    Fam::MergeArr3,
    Fam::MergeVec,
    Fam::MergeTup2,
    Fam::ZipArr2,
    Fam::ZipVec,
    Fam::FutGroup,
    Fam::StreamGroup,
    Fam::JoinNest,
    Fam::MergeNest,
    Fam::GroupOfJoins,
    Fam::GroupOfMerges,
    Fam::ZipOfMerges,
    Fam::FutGroupRemove,
    Fam::StreamGroupRemove,
];
impl Fam {
    fn name(self) -> &'static str {
        match self {
            Fam::JoinArr3 => "join/array3",
            Fam::JoinVec => "join/vec",
            Fam::JoinTup3 => "join/tuple3",
            Fam::TryJoinArr3 => "try_join/array3",
            Fam::TryJoinVec => "try_join/vec",
            Fam::MergeArr3 => "merge/array3",
            Fam::MergeVec => "merge/vec",
            Fam::MergeTup2 => "merge/tuple2",
            Fam::ZipArr2 => "zip/array2",
            Fam::ZipVec => "zip/vec",
            Fam::FutGroup => "FutureGroup",
            Fam::StreamGroup => "StreamGroup",
            Fam::JoinNest => "join(join,join,leaf)",
            Fam::MergeNest => "merge(merge,merge)",
            Fam::GroupOfJoins => "FutureGroup<join>",
            Fam::GroupOfMerges => "StreamGroup<merge>",
            Fam::ZipOfMerges => "zip(merge,merge)",
            Fam::FutGroupRemove => "FutureGroup+remove",
            Fam::StreamGroupRemove => "StreamGroup+remove",
        }
    }
    fn from_name(s: &str) -> Option<Fam> {
        FAMS.iter().copied().find(|f| f.name() == s)
    }
    fn is_stream_children(self) -> bool {
        matches!(
            self,
            Fam::MergeArr3
                | Fam::MergeVec
                | Fam::MergeTup2
                | Fam::ZipArr2
                | Fam::ZipVec
                | Fam::StreamGroup
                | Fam::MergeNest
                | Fam::GroupOfMerges
                | Fam::ZipOfMerges
                | Fam::StreamGroupRemove
        )
    }
    fn fixed_n(self) -> Option<usize> {
        match self {
            Fam::JoinArr3 | Fam::JoinTup3 | Fam::TryJoinArr3 | Fam::MergeArr3 => Some(3),
            Fam::MergeTup2 | Fam::ZipArr2 => Some(2),
            Fam::JoinNest | Fam::MergeNest | Fam::GroupOfJoins | Fam::GroupOfMerges | Fam::ZipOfMerges => Some(4),
            _ => None,
        }
    }
}

fn oracle(cond: bool, id: &str, msg: impl FnOnce() -> String) {
    if !cond {
        panic!("ORACLE {id}: {}", msg());
    }
}

struct Stats {
    hashes: std::sync::Mutex<HashSet<u64>>,
    nontrivial: std::sync::Mutex<HashSet<u64>>,
    iterations: AtomicU64,
    pendings: AtomicU64,
    wakes_mid_poll: AtomicU64,
    cancels: AtomicU64,
    sample: std::sync::Mutex<Vec<String>>,
}

fn scenario(fam: Fam, prop_c02: bool, stats: Option<&Stats>) {
    let mut rng = thread_rng();
    let n = fam.fixed_n().unwrap_or_else(|| rng.gen_range(1usize..=4));
    let late_insert = matches!(fam, Fam::FutGroup | Fam::StreamGroup) && rng.gen_range(0u32..2) == 0;
    let total = n + late_insert as usize;
    let is_stream = fam.is_stream_children();
    let fallible = matches!(fam, Fam::TryJoinArr3 | Fam::TryJoinVec);
    let acct = Acct::new();
    let plans: Vec<ChildPlan> = (0..total)
        .map(|_| ChildPlan { items: if is_stream { rng.gen_range(0usize..=2) } else { 0 }, err: fallible && rng.gen_range(0u32..3) == 0 })
        .collect();
    let chans: Vec<Sh> = (0..total).map(|_| Arc::new(Mutex::new(Chan::default()))).collect();
    let n_prod = rng.gen_range(1usize..=3.min(total));
    let cancel_at = if prop_c02 && rng.gen_range(0u32..2) == 0 { Some(rng.gen_range(0u32..4)) } else { None };
    let ex = Arc::new(Exec { m: Mutex::new(ExecSt { newest: 0, woken: false }), cv: Condvar::new() });
    let mut poller = Poller {
        ex,
        cur: None,
        fresh_pct: [0u32, 50, 100][rng.gen_range(0usize..3)],
        spurious: rng.gen_range(0u32..3),
        polls: 0,
        cancel_at,
        acct: acct.clone(),
    };
    // producers: child c belongs to thread c % n_prod; stream items carry ids child*8+seq
    let mut handles = Vec::new();
    for t in 0..n_prod {
        let mine: Vec<(Sh, ChildPlan, bool)> = (0..total).filter(|c| c % n_prod == t).map(|c| (chans[c].clone(), plans[c], is_stream)).collect();
        let base: Vec<usize> = (0..total).filter(|c| c % n_prod == t).collect();
        let acct2 = acct.clone();
        handles.push(thread::spawn(move || {
            // rewrite queued ids to global value ids as they are pushed
            let wrapped: Vec<(Sh, ChildPlan, bool)> = mine;
            producer_with_ids(wrapped, base, acct2);
        }));
    }
    // one scheduling point with several runnable threads in every execution (PCT measures the
    // schedule length on its first execution and refuses executions without any decision)
    drop(poller.ex.m.lock().unwrap());
    CUR.with(|c| *c.borrow_mut() = Some(Ctx { acct: acct.clone(), chans: chans.clone() }));
    let mkf = |c: usize| ChanFut { idx: c, finished: false };
    let mks = |c: usize| ChanStream { idx: c, finished: false };
    let mut yielded: Vec<u32> = Vec::new();
    let mut completed = true;
    match fam {
        Fam::JoinArr3 => {
            let r = poller.drive_future(Join::join([OkFut(mkf(0)), OkFut(mkf(1)), OkFut(mkf(2))]));
            match r {
                Some(out) => {
                    for (i, v) in out.iter().enumerate() {
                        oracle(v.id == vid(i, 0), "c04.mt_pos", || format!("join output[{i}] = {v:?}"));
                    }
                }
                None => completed = false,
            }
        }
        Fam::JoinTup3 => {
            let r = poller.drive_future(Join::join((OkFut(mkf(0)), OkFut(mkf(1)), OkFut(mkf(2)))));
            match r {
                Some((a, b, c)) => {
                    oracle(a.id == vid(0, 0) && b.id == vid(1, 0) && c.id == vid(2, 0), "c04.mt_pos", || format!("join output ({a:?},{b:?},{c:?})"));
                }
                None => completed = false,
            }
        }
        Fam::JoinVec => {
            let r = poller.drive_future(Join::join((0..n).map(|c| OkFut(mkf(c))).collect::<Vec<_>>()));
            match r {
                Some(out) => {
                    oracle(out.len() == n, "c04.mt_pos", || format!("join output has {} elements for {n} children", out.len()));
                    for (i, v) in out.iter().enumerate() {
                        oracle(v.id == vid(i, 0), "c04.mt_pos", || format!("join output[{i}] = {v:?}"));
                    }
                }
                None => completed = false,
            }
        }
        Fam::TryJoinArr3 | Fam::TryJoinVec => {
            let r: Option<Result<Vec<Tracked>, Tracked>> = if fam == Fam::TryJoinArr3 {
                poller.drive_future(TryJoin::try_join([mkf(0), mkf(1), mkf(2)])).map(|r| r.map(|a| a.into_iter().collect()))
            } else {
                poller.drive_future(TryJoin::try_join((0..n).map(|c| mkf(c)).collect::<Vec<_>>()))
            };
            match r {
                Some(Ok(out)) => {
                    oracle(plans[..n].iter().all(|p| !p.err), "c05.mt_ok", || "try_join returned Ok although a child fails".to_string());
                    for (i, v) in out.iter().enumerate() {
                        oracle(v.id == vid(i, 0), "c05.mt_pos", || format!("try_join output[{i}] = {v:?}"));
                    }
                }
                Some(Err(e)) => {
                    let c = (e.id / 8) as usize;
                    oracle(c < n && plans[c].err, "c05.mt_err", || format!("try_join returned error {e:?} of a child that does not fail"));
                }
                None => completed = false,
            }
        }
        Fam::MergeArr3 | Fam::MergeVec | Fam::MergeTup2 | Fam::ZipArr2 | Fam::ZipVec => {
            let mut rows: Vec<Vec<u32>> = Vec::new();
            let done = match fam {
                Fam::MergeArr3 => {
                    let mut s = Merge::merge([mks(0), mks(1), mks(2)]);
                    poller.drive_stream(&mut s, |_, v| yielded.push(v.id))
                }
                Fam::MergeVec => {
                    let mut s = Merge::merge((0..n).map(|c| mks(c)).collect::<Vec<_>>());
                    poller.drive_stream(&mut s, |_, v| yielded.push(v.id))
                }
                Fam::MergeTup2 => {
                    let mut s = Merge::merge((mks(0), mks(1)));
                    poller.drive_stream(&mut s, |_, v| yielded.push(v.id))
                }
                Fam::ZipArr2 => {
                    let mut s = Zip::zip([mks(0), mks(1)]);
                    poller.drive_stream(&mut s, |_, row| rows.push(row.iter().map(|v| v.id).collect()))
                }
                _ => {
                    let mut s = Zip::zip((0..n).map(|c| mks(c)).collect::<Vec<_>>());
                    poller.drive_stream(&mut s, |_, row| rows.push(row.iter().map(|v| v.id).collect()))
                }
            };
            completed = done;
            if matches!(fam, Fam::ZipArr2 | Fam::ZipVec) {
                for (k, row) in rows.iter().enumerate() {
                    oracle(row.len() == n, "c09.mt_row", || format!("row {k} has {} fields", row.len()));
                    for (i, &v) in row.iter().enumerate() {
                        oracle(v == vid(i, k), "c09.mt_row", || format!("row {k} field {i} holds v{v}"));
                    }
                }
                if done {
                    let shortest = plans[..n].iter().map(|p| p.items).min().unwrap_or(0);
                    oracle(rows.len() == shortest, "c09.mt_len", || format!("zip yielded {} rows, shortest input has {shortest}", rows.len()));
                }
            } else {
                check_stream_items("c08", &yielded, &plans[..n], done, None);
            }
        }
        Fam::JoinNest => {
            let inner_a = Join::join([OkFut(mkf(0)), OkFut(mkf(1))]);
            let inner_b = Join::join(vec![OkFut(mkf(2))]);
            let r = poller.drive_future(Join::join((inner_a, inner_b, OkFut(mkf(3)))));
            match r {
                Some((a, b, c)) => {
                    oracle(
                        a[0].id == vid(0, 0) && a[1].id == vid(1, 0) && b.len() == 1 && b[0].id == vid(2, 0) && c.id == vid(3, 0),
                        "c04.mt_pos",
                        || format!("nested join output ({a:?},{b:?},{c:?})"),
                    );
                }
                None => completed = false,
            }
        }
        Fam::MergeNest => {
            let inner_a = Merge::merge([mks(0), mks(1)]);
            let inner_b = Merge::merge(vec![mks(2), mks(3)]);
            let mut s = Merge::merge((inner_a, inner_b));
            let done = poller.drive_stream(&mut s, |_, v| yielded.push(v.id));
            completed = done;
            check_stream_items("c08", &yielded, &plans[..n], done, None);
        }
        Fam::ZipOfMerges => {
            let inner_a = Merge::merge([mks(0), mks(1)]);
            let inner_b = Merge::merge(vec![mks(2), mks(3)]);
            let mut s = Box::pin(Zip::zip((inner_a, inner_b)));
            let mut rows = 0usize;
            let (mut left, mut right) = (Vec::new(), Vec::new());
            let done = poller.drive_stream(&mut s, |_, (l, r)| {
                rows += 1;
                left.push(l.id);
                right.push(r.id);
            });
            completed = done;
            for &v in &left {
                oracle(v / 8 < 2, "c09.mt_row", || format!("left field of a row holds v{v}, an item of the right input"));
            }
            for &v in &right {
                oracle((2..4).contains(&(v / 8)), "c09.mt_row", || format!("right field of a row holds v{v}, an item of the left input"));
            }
            // per-child order / exactly-once inside each side (rows consume a prefix of each merged side)
            let all: Vec<u32> = left.iter().chain(right.iter()).copied().collect();
            check_stream_items("c09", &all, &plans[..n], false, None);
            if done {
                let shortest = (plans[0].items + plans[1].items).min(plans[2].items + plans[3].items);
                oracle(rows == shortest, "c09.mt_len", || format!("zip(merge,merge) yielded {rows} rows, shortest side has {shortest} items"));
            }
        }
        Fam::GroupOfJoins => {
            let mut g = FutureGroup::new();
            g.insert(Join::join([OkFut(mkf(0)), OkFut(mkf(1))]));
            g.insert(Join::join([OkFut(mkf(2)), OkFut(mkf(3))]));
            let mut g = Box::pin(g);
            let mut seen = Vec::new();
            let done = poller.drive_stream(&mut g, |_, out| {
                oracle(out[0].id % 8 == 0 && out[1].id == out[0].id + 8 && (out[0].id / 8) % 2 == 0, "c04.mt_pos", || {
                    format!("FutureGroup<join> yielded [{:?},{:?}]", out[0], out[1])
                });
                seen.push(out[0].id / 8);
            });
            completed = done;
            if done {
                seen.sort_unstable();
                oracle(seen == vec![0, 2], "c11.mt_items", || format!("FutureGroup<join> yielded the joins starting at children {seen:?}, expected [0, 2]"));
            }
            drop(g);
        }
        Fam::GroupOfMerges => {
            let mut g = StreamGroup::new();
            g.insert(Merge::merge([mks(0), mks(1)]));
            g.insert(Merge::merge([mks(2), mks(3)]));
            let mut g = Box::pin(g);
            let done = poller.drive_stream(&mut g, |_, v| yielded.push(v.id));
            completed = done;
            check_stream_items("c12", &yielded, &plans[..n], done, None);
            drop(g);
        }
        Fam::FutGroupRemove => {
            let mut g = FutureGroup::new();
            let keys: Vec<_> = (0..n).map(|c| g.insert(OkFut(mkf(c)))).collect();
            let victim = rng.gen_range(0..n);
            let after = rng.gen_range(0u32..2);
            let mut removed: Option<bool> = None;
            if after == 0 {
                removed = Some(g.remove(keys[victim]));
            }
            let mut g = g.keyed();
            let mut got: Vec<(usize, u32)> = Vec::new();
            let mut key_of = Vec::new();
            let done = poller.drive_stream(&mut g, |g, (k, v)| {
                key_of.push(k);
                got.push((got.len(), v.id));
                if removed.is_none() {
                    removed = Some(g.remove(keys[victim]));
                }
            });
            completed = done;
            for (i, (_, v)) in got.iter().enumerate() {
                let c = (*v / 8) as usize;
                oracle(c < n && key_of[i] == keys[c], "c11.mt_key", || format!("FutureGroup yielded v{v} with the key of another member"));
            }
            let victim_yielded = got.iter().any(|(_, v)| (*v / 8) as usize == victim);
            if let Some(r) = removed {
                oracle(r != victim_yielded, "c11.mt_remove", || {
                    format!("remove(victim) returned {r} but the victim's output was {}yielded", if victim_yielded { "" } else { "not " })
                });
            }
            if done {
                let mut ids: Vec<u32> = got.iter().map(|(_, v)| *v).collect();
                ids.sort_unstable();
                let want: Vec<u32> = (0..n).filter(|&c| c != victim || victim_yielded).map(|c| vid(c, 0)).collect();
                oracle(ids == want, "c11.mt_items", || format!("FutureGroup yielded {ids:?}, expected {want:?} (victim {victim}, removed {removed:?})"));
            }
            drop(g);
        }
        Fam::StreamGroupRemove => {
            let mut g = StreamGroup::new();
            let keys: Vec<_> = (0..n).map(|c| g.insert(mks(c))).collect();
            let victim = rng.gen_range(0..n);
            let mut removed: Option<bool> = None;
            if rng.gen_range(0u32..2) == 0 {
                removed = Some(g.remove(keys[victim]));
            }
            let mut g = g.keyed();
            let mut victim_after_remove = false;
            let done = poller.drive_stream(&mut g, |g, (k, v)| {
                let c = (v.id / 8) as usize;
                oracle(c < n && k == keys[c], "c12.mt_key", || format!("StreamGroup yielded v{} with the key of another member", v.id));
                if removed == Some(true) && c == victim {
                    victim_after_remove = true;
                }
                yielded.push(v.id);
                if removed.is_none() {
                    removed = Some(g.remove(keys[victim]));
                }
            });
            completed = done;
            oracle(!victim_after_remove, "c12.mt_remove", || format!("an item of member {victim} was yielded after remove() returned true"));
            let exempt = if removed == Some(true) { Some(victim) } else { None };
            check_stream_items("c12", &yielded, &plans[..n], done, exempt);
            drop(g);
        }
        Fam::FutGroup => {
            let mut g = FutureGroup::new();
            for c in 0..n {
                g.insert(OkFut(mkf(c)));
            }
            let mut inserted = n;
            let done = poller.drive_stream(&mut g, |g, v| {
                yielded.push(v.id);
                if late_insert && inserted == n {
                    g.insert(OkFut(mkf(n)));
                    inserted += 1;
                }
            });
            completed = done;
            if done {
                let mut got = yielded.clone();
                got.sort_unstable();
                let want: Vec<u32> = (0..inserted).map(|c| vid(c, 0)).collect();
                oracle(got == want, "c11.mt_items", || format!("FutureGroup yielded {got:?}, expected {want:?}"));
            }
            if inserted <= n && late_insert {
                // the late member was never handed to the group: the harness still owns nothing of it
            }
            drop(g);
            finish(fam, &acct, handles, inserted, stats, completed, cancel_at.is_some());
            return;
        }
        Fam::StreamGroup => {
            let mut g = StreamGroup::new();
            for c in 0..n {
                g.insert(mks(c));
            }
            let mut inserted = n;
            let done = poller.drive_stream(&mut g, |g, v| {
                yielded.push(v.id);
                if late_insert && inserted == n {
                    g.insert(mks(n));
                    inserted += 1;
                }
            });
            completed = done;
            check_stream_items("c12", &yielded, &plans[..inserted], done, None);
            drop(g);
            finish(fam, &acct, handles, inserted, stats, completed, cancel_at.is_some());
            return;
        }
    }
    finish(fam, &acct, handles, n, stats, completed, cancel_at.is_some());
}

fn producer_with_ids(chans: Vec<(Sh, ChildPlan, bool)>, idx: Vec<usize>, acct: Arc<Acct>) {
    let mut left: Vec<(Sh, usize, ChildPlan, bool, usize)> = chans.into_iter().zip(idx).map(|((c, p, s), i)| (c, 0usize, p, s, i)).collect();
    while !left.is_empty() {
        let i = thread_rng().gen_range(0..left.len());
        let finished;
        let ch2;
        {
            let (ch, step, plan, is_stream, child) = &mut left[i];
            {
                let mut g = ch.lock().unwrap();
                if *is_stream && *step < plan.items {
                    g.queue.push_back(vid(*child, *step));
                    finished = false;
                } else {
                    g.done = true;
                    g.err = plan.err;
                    finished = true;
                }
            }
            *step += 1;
            ch2 = ch.clone();
        }
        if finished {
            left.remove(i);
        }
        fire(&ch2, &acct);
    }
}

fn check_stream_items(prefix: &str, yielded: &[u32], plans: &[ChildPlan], done: bool, exempt: Option<usize>) {
    // per-child order and exactly-once
    let mut next = vec![0usize; plans.len()];
    for &v in yielded {
        let c = (v / 8) as usize;
        let k = (v % 8) as usize;
        oracle(c < plans.len() && k == next[c] && k < plans[c].items, &format!("{prefix}.mt_order"), || {
            format!("yielded v{v} (child {c} item {k}) but that child's next item is #{}", next.get(c).copied().unwrap_or(99))
        });
        next[c] += 1;
    }
    if done {
        for (c, p) in plans.iter().enumerate() {
            oracle(next[c] == p.items || exempt == Some(c), &format!("{prefix}.mt_items"), || {
                format!("stream ended but child {c} delivered {} of its {} items", next[c], p.items)
            });
        }
    }
}

fn finish(fam: Fam, acct: &Arc<Acct>, handles: Vec<thread::JoinHandle<()>>, handed: usize, stats: Option<&Stats>, completed: bool, cancelled: bool) {
    // the root (and everything the harness received) is dropped by now; producers may still be firing
    // wakers of a finished / dropped combinator (F7/F8) — join them, then account.
    for h in handles {
        h.join().unwrap();
    }
    for c in 0..handed {
        let d = acct.child_drops[c].load(Ordering::Relaxed);
        oracle(d == 1, "c02.mt_child_drop", || format!("{}: child {c} dropped {d} times (expected exactly once)", fam.name()));
    }
    let b = acct.bogus.load(Ordering::Relaxed);
    oracle(b == 0, "c02.mt_bogus_drop", || format!("{}: {b} drops of values/children that were never created (bad canary)", fam.name()));
    for v in 0..MAXV {
        let (c, d) = (acct.val_created[v].load(Ordering::Relaxed), acct.val_dropped[v].load(Ordering::Relaxed));
        oracle(c == d && c <= 1, "c02.mt_val_drop", || format!("{}: value v{v} created {c} times, dropped {d} times", fam.name()));
    }
    if let Some(st) = stats {
        let mut h = acct.trace.load(Ordering::Relaxed);
        for c in 0..MAXC {
            h = h.wrapping_mul(31).wrapping_add(acct.child_polls[c].load(Ordering::Relaxed) as u64);
        }
        h ^= (fam as u64) << 56;
        st.iterations.fetch_add(1, Ordering::Relaxed);
        let p = acct.pendings.load(Ordering::Relaxed) as u64;
        let w = acct.wakes_mid_poll.load(Ordering::Relaxed) as u64;
        st.pendings.fetch_add(p, Ordering::Relaxed);
        st.wakes_mid_poll.fetch_add(w, Ordering::Relaxed);
        if cancelled && !completed {
            st.cancels.fetch_add(1, Ordering::Relaxed);
        }
        st.hashes.lock().unwrap().insert(h);
        if p > 0 {
            st.nontrivial.lock().unwrap().insert(h);
        }
    }
}

// ------------------------------------------------------------------ driver

fn args_map() -> (String, BTreeMap<String, String>) {
    let mut it = std::env::args().skip(1);
    let mode = it.next().unwrap_or_else(|| "help".into());
    let mut m = BTreeMap::new();
    let mut pending: Option<String> = None;
    for a in it {
        if let (Some(k), false) = (pending.as_ref(), a.starts_with("--")) {
            m.insert(k.clone(), a);
            pending = None;
        } else if let Some(k) = a.strip_prefix("--") {
            // a flag without a value followed by another option
            if let Some(prev) = pending.take() {
                m.insert(prev, "1".into());
            }
            pending = Some(k.to_string());
        }
    }
    if let Some(k) = pending {
        m.insert(k, "1".into());
    }
    (mode, m)
}

fn js(s: &str) -> String {
    let mut o = String::from("\"");
    for c in s.chars() {
        match c {
            '"' => o.push_str("\\\""),
            '\\' => o.push_str("\\\\"),
            '\n' => o.push_str("\\n"),
            '\t' => o.push_str("\\t"),
            c if (c as u32) < 0x20 => o.push_str(&format!("\\u{:04x}", c as u32)),
            c => o.push(c),
        }
    }
    o.push('"');
    o
}

fn payload_msg(p: &Box<dyn std::any::Any + Send>) -> String {
    if let Some(s) = p.downcast_ref::<&str>() {
        s.to_string()
    } else if let Some(s) = p.downcast_ref::<String>() {
        s.clone()
    } else {
        "<non-string panic>".into()
    }
}

fn classify(prop: &str, msg: &str) -> String {
    if let Some(rest) = msg.strip_prefix("ORACLE ") {
        return rest.split(':').next().unwrap_or("mt.oracle").to_string();
    }
    let p = prop.to_ascii_lowercase();
    if msg.contains("deadlock") {
        format!("{p}.mt_lost_wakeup")
    } else if msg.contains("exceeded max_steps") || msg.contains("max_steps") {
        format!("{p}.mt_livelock")
    } else {
        format!("{p}.mt_panic")
    }
}

struct Failure {
    fam: Fam,
    sched: &'static str,
    seed: u64,
    msg: String,
}

fn cmd_check(a: &BTreeMap<String, String>) -> i32 {
    let prop = a.get("prop").cloned().unwrap_or_else(|| "C01".into());
    let iters: u64 = a.get("iters").and_then(|v| v.parse().ok()).unwrap_or(10_000);
    let base: u64 = a.get("seed").and_then(|v| v.parse().ok()).unwrap_or(1);
    let threads: usize = a.get("threads").and_then(|v| v.parse().ok()).unwrap_or(16);
    let out = a.get("out").cloned();
    let replay_dir = a.get("replay-dir").cloned().unwrap_or_else(|| "/verif/replays".into());
    let c02 = prop == "C02";
    let tmp = format!("{replay_dir}/tmp-mt-{}", std::process::id());
    let _ = std::fs::create_dir_all(&tmp);
    let t0 = Instant::now();
    let stats = Arc::new(Stats {
        hashes: Default::default(),
        nontrivial: Default::default(),
        iterations: AtomicU64::new(0),
        pendings: AtomicU64::new(0),
        wakes_mid_poll: AtomicU64::new(0),
        cancels: AtomicU64::new(0),
        sample: Default::default(),
    });
    // work items: (family, scheduler kind, batch index)
    const BATCH: u64 = 250;
    let per_fam = (iters / FAMS.len() as u64).max(BATCH);
    let mut work: Vec<(Fam, &'static str, u64, u64)> = Vec::new();
    let only_fam = a.get("only-fam").cloned();
    for (fi, fam) in FAMS.iter().enumerate() {
        if only_fam.as_ref().map_or(false, |o| !fam.name().contains(o.as_str())) {
            continue;
        }
        let mut done = 0;
        let mut b = 0u64;
        while done < per_fam {
            let n = BATCH.min(per_fam - done);
            let kind = if b % 2 == 0 { "random" } else { "pct3" };
            work.push((*fam, kind, base.wrapping_mul(0x9E37_79B9).wrapping_add((fi as u64) << 32).wrapping_add(b), n));
            done += n;
            b += 1;
        }
    }
    let next = std::sync::atomic::AtomicUsize::new(0);
    let stop = AtomicBool::new(false);
    let failures: std::sync::Mutex<Vec<Failure>> = Default::default();
    let per_sched: std::sync::Mutex<BTreeMap<String, u64>> = Default::default();
    std::thread::scope(|s| {
        for _ in 0..threads.max(1) {
            s.spawn(|| loop {
                if stop.load(Ordering::Relaxed) {
                    break;
                }
                let i = next.fetch_add(1, Ordering::Relaxed);
                if i >= work.len() {
                    break;
                }
                let (fam, kind, seed, n) = work[i];
                let mut cfg = Config::new();
                cfg.failure_persistence = FailurePersistence::File(Some(tmp.clone().into()));
                cfg.max_steps = MaxSteps::FailAfter(20_000);
                cfg.silence_warnings = true;
                let st = stats.clone();
                let f = move || scenario(fam, c02, Some(&st));
                let r = catch_unwind(AssertUnwindSafe(|| {
                    if kind == "random" {
                        Runner::new(RandomScheduler::new_from_seed(seed, n as usize), cfg).run(f)
                    } else {
                        Runner::new(PctScheduler::new_from_seed(seed, 3, n as usize), cfg).run(f)
                    }
                }));
                match r {
                    Ok(done) => {
                        *per_sched.lock().unwrap().entry(format!("{}|{}", fam.name(), kind)).or_insert(0) += done as u64;
                    }
                    Err(p) => {
                        failures.lock().unwrap().push(Failure { fam, sched: kind, seed, msg: payload_msg(&p) });
                        stop.store(true, Ordering::Relaxed);
                    }
                }
            });
        }
    });
    let wall = t0.elapsed().as_secs_f64();
    // replay files: one per failure (schedule files were written into tmp by shuttle's panic hook)
    let mut sched_files: Vec<std::path::PathBuf> = std::fs::read_dir(&tmp).map(|d| d.filter_map(|e| e.ok()).map(|e| e.path()).collect()).unwrap_or_default();
    sched_files.sort();
    let fails = failures.lock().unwrap();
    let mut vio = Vec::new();
    for (k, f) in fails.iter().enumerate() {
        // find the schedule file that reproduces this failure (several workers may have failed)
        let mut chosen: Option<String> = None;
        for sf in &sched_files {
            if let Ok(enc) = std::fs::read_to_string(sf) {
                let fam = f.fam;
                let r = catch_unwind(AssertUnwindSafe(|| shuttle::replay(move || scenario(fam, c02, None), &enc)));
                if let Err(p) = r {
                    if classify(&prop, &payload_msg(&p)) == classify(&prop, &f.msg) {
                        chosen = Some(enc);
                        break;
                    }
                }
            }
        }
        let oracle = classify(&prop, &f.msg);
        let path = format!("{replay_dir}/{prop}-mt-{}-{:016x}-{k}.json", f.fam.name().replace('/', "_"), f.seed);
        let body = format!(
            "{{\n\"engine\":\"shuttle\",\n\"property\":{},\n\"oracle\":{},\n\"config\":\"std\",\n\"family\":{},\n\"scheduler\":{},\n\"scheduler_seed\":{},\n\"message\":{},\n\"schedule\":{},\n\"note\":\"shuttle does not minimise schedules; the scenario (family) is the smallest unit\",\n\"replay_cmd\":{}\n}}\n",
            js(&prop),
            js(&oracle),
            js(f.fam.name()),
            js(f.sched),
            f.seed,
            js(&f.msg),
            js(chosen.as_deref().unwrap_or("")),
            js(&format!("/verif/check replay {path}"))
        );
        let _ = std::fs::write(&path, body);
        println!("FOUND property={} oracle={} key={} replay={}", prop, oracle, f.fam.name(), path);
        vio.push(format!("{{\"oracle\":{},\"key\":{},\"msg\":{},\"seed\":{},\"replay\":{}}}", js(&oracle), js(f.fam.name()), js(&f.msg), f.seed, js(&path)));
    }
    let _ = std::fs::remove_dir_all(&tmp);
    let ps = per_sched.lock().unwrap();
    let evals = stats.iterations.load(Ordering::Relaxed);
    let o = format!(
        "{{\n\"config\":\"std\",\n\"engine\":\"shuttle\",\n\"property\":{},\n\"seed\":{},\n\"evaluations\":{},\n\"distinct_logs\":{},\n\"distinct_nontrivial\":{},\n\"wall_s\":{:.3},\n\"schedules_per_hour\":{},\n\"root_pending_returns\":{},\n\"wakes_while_poller_inside_poll\":{},\n\"cancellations_mid_flight\":{},\n\"per_family_scheduler\":{{{}}},\n\"rule\":\"one evaluation = one shuttle schedule of poller + producers; distinct = distinct (family, poll-result trace, per-child poll counts); non-trivial = the root returned Pending at least once\",\n\"violations\":[{}]\n}}\n",
        js(&prop),
        base,
        evals,
        stats.hashes.lock().unwrap().len(),
        stats.nontrivial.lock().unwrap().len(),
        wall,
        (evals as f64 / wall.max(1e-9) * 3600.0) as u64,
        stats.pendings.load(Ordering::Relaxed),
        stats.wakes_mid_poll.load(Ordering::Relaxed),
        stats.cancels.load(Ordering::Relaxed),
        ps.iter().map(|(k, v)| format!("{}:{}", js(k), v)).collect::<Vec<_>>().join(","),
        vio.join(",")
    );
    match out {
        Some(p) => std::fs::write(p, o).expect("write part"),
        None => print!("{o}"),
    }
    if fails.is_empty() {
        0
    } else {
        1
    }
}

fn json_field(src: &str, key: &str) -> Option<String> {
    // minimal extractor for the flat replay files written above
    let pat = format!("\"{key}\":");
    let i = src.find(&pat)? + pat.len();
    let rest = src[i..].trim_start();
    if let Some(r) = rest.strip_prefix('"') {
        let mut out = String::new();
        let mut chars = r.chars();
        while let Some(c) = chars.next() {
            match c {
                '\\' => match chars.next()? {
                    'n' => out.push('\n'),
                    't' => out.push('\t'),
                    'u' => {
                        let h: String = chars.by_ref().take(4).collect();
                        out.push(char::from_u32(u32::from_str_radix(&h, 16).ok()?)?);
                    }
                    c => out.push(c),
                },
                '"' => return Some(out),
                c => out.push(c),
            }
        }
        None
    } else {
        Some(rest.split(|c| c == ',' || c == '\n' || c == '}').next()?.trim().to_string())
    }
}

fn cmd_replay(a: &BTreeMap<String, String>) -> i32 {
    let Some(file) = a.get("file") else {
        eprintln!("replay: need --file");
        return 2;
    };
    let Ok(src) = std::fs::read_to_string(file) else {
        eprintln!("replay: cannot read {file}");
        return 2;
    };
    let (Some(prop), Some(fam), Some(sched), Some(oracle)) =
        (json_field(&src, "property"), json_field(&src, "family"), json_field(&src, "schedule"), json_field(&src, "oracle"))
    else {
        eprintln!("replay: malformed file");
        return 2;
    };
    let Some(fam) = Fam::from_name(&fam) else {
        eprintln!("replay: unknown family");
        return 2;
    };
    if sched.is_empty() {
        eprintln!("replay: the file holds no schedule");
        return 2;
    }
    let c02 = prop == "C02";
    let r = catch_unwind(AssertUnwindSafe(|| shuttle::replay(move || scenario(fam, c02, None), &sched)));
    match r {
        Err(p) => {
            let msg = payload_msg(&p);
            let got = classify(&prop, &msg);
            println!("replayed: [{got}] {msg}");
            if got != oracle {
                println!("note: recorded oracle was [{oracle}]");
            }
            println!("VIOLATION property={prop} replay={file}");
            1
        }
        Ok(()) => {
            println!("replay of {file}: no violation on this tree (recorded: [{oracle}])");
            0
        }
    }
}

fn main() {
    let (mode, a) = args_map();
    let code = match mode.as_str() {
        "check" => cmd_check(&a),
        "replay" => cmd_replay(&a),
        _ => {
            eprintln!("usage: fcmt check --prop C01|C02 --iters N --seed S --threads T --out FILE --replay-dir DIR | replay --file F");
            2
        }
    };
    std::process::exit(code);
}
