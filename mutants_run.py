#!/usr/bin/env python3
"""Sensitivity suite: `./check mutants [--only SUBSTR] [--seeded] [--all-props] [--tier quick|thorough] [--jobs N]`.

For every entry of mutants/index.json (own property-breaking patches) and, with --seeded, every
seeded/<id>/meta.json (changes written by independent sub-agents), a scratch worktree of /repo is created
under /tmp, the patch is applied there, and the *registered* check of the stated property is run against it
(VERIF_REPO=<worktree>; /repo and /verif stay untouched). The mutant counts as killed iff the check exits 1
with a VIOLATION line. Worktree, shadow crate and build output are removed afterwards.
Results: mutants/results.json (or seeded/results.json).
"""
import json, os, shutil, subprocess, sys, time, hashlib
from concurrent.futures import ThreadPoolExecutor

V = os.path.dirname(os.path.abspath(__file__))
ALL = ["C%02d" % i for i in range(1, 21) if i != 18]


def sh(cmd, cwd=None, env=None, timeout=None):
    return subprocess.run(cmd, cwd=cwd, env=env, stdout=subprocess.PIPE, stderr=subprocess.STDOUT, text=True, timeout=timeout)


def run_one(entry, props, tier, seed):
    name = entry["name"]
    wt = f"/tmp/verif-mut/{name}"
    scratch = f"/tmp/verif-mut/{name}.scratch"
    os.makedirs("/tmp/verif-mut", exist_ok=True)
    sh(["git", "-C", "/repo", "worktree", "remove", "--force", wt])
    shutil.rmtree(wt, ignore_errors=True)
    r = sh(["git", "-C", "/repo", "worktree", "add", "--detach", wt, entry.get("base", "HEAD")])
    res = {"name": name, "property": entry["property"], "results": {}}
    try:
        if r.returncode != 0:
            res["error"] = "worktree: " + r.stdout[-300:]
            return res
        a = sh(["git", "apply", os.path.join(V, entry["patch"])], cwd=wt)
        if a.returncode != 0:
            res["error"] = "patch does not apply: " + a.stdout[-300:]
            return res
        env = dict(os.environ, VERIF_REPO=wt, VERIF_SCRATCH=scratch, VERIF_SEED=str(seed))
        for p in props:
            t0 = time.time()
            try:
                c = sh([os.path.join(V, "check"), p, "--tier", tier], cwd=V, env=env, timeout=3600)
                rc, out = c.returncode, c.stdout
            except subprocess.TimeoutExpired:
                rc, out = 124, "timeout"
            oracles = sorted({l.split("]")[0].strip().lstrip("[") for l in out.splitlines() if l.strip().startswith("[")})
            if rc == 1 and not any(l.startswith("VIOLATION property=") for l in out.splitlines()):
                rc = 2   # exit 1 without a VIOLATION line is not a verdict
                out += "\n(exit 1 without a VIOLATION line)"
            res["results"][p] = {"rc": rc, "oracles": oracles[:8], "wall_s": round(time.time() - t0, 1)}
            if rc not in (0, 1):
                res["results"][p]["tail"] = out[-1500:]
    finally:
        sh(["git", "-C", "/repo", "worktree", "remove", "--force", wt])
        shutil.rmtree(wt, ignore_errors=True)
        shutil.rmtree(scratch, ignore_errors=True)
    return res


def main(args):
    only = None
    seeded = "--seeded" in args
    all_props = "--all-props" in args
    tier = "quick"
    jobs = 4
    seed = int(os.environ.get("VERIF_SEED", "1"))
    i = 0
    while i < len(args):
        if args[i] == "--only":
            only = args[i + 1]; i += 1
        elif args[i] == "--tier":
            tier = args[i + 1]; i += 1
        elif args[i] == "--jobs":
            jobs = int(args[i + 1]); i += 1
        i += 1
    entries = []
    if seeded:
        d = os.path.join(V, "seeded")
        for n in sorted(os.listdir(d)) if os.path.isdir(d) else []:
            mp = os.path.join(d, n, "meta.json")
            if os.path.isfile(mp):
                m = json.load(open(mp))
                entries.append({"name": n, "property": m["property"], "patch": f"seeded/{n}/patch.diff", "what": m.get("summary", ""),
                                **({"base": m["base"]} if "base" in m else {})})
        out_path = os.path.join(V, "seeded", "results.json")
    else:
        entries = json.load(open(os.path.join(V, "mutants", "index.json")))
        out_path = os.path.join(V, "mutants", "results.json")
    if only:
        entries = [e for e in entries if only in e["name"]]
    if not entries:
        print("no mutants selected")
        return 2
    # make sure the main build is warm (shadow crates copy its dependency artefacts)
    subprocess.run([os.path.join(V, "check"), "build"], cwd=V)

    def job(e):
        props = ALL if all_props else [e["property"]]
        r = run_one(e, props, tier, seed)
        own = r["results"].get(e["property"], {})
        killed = own.get("rc") == 1
        others = [p for p, x in r["results"].items() if x.get("rc") == 1 and p != e["property"]]
        if "base" in e:   # on the older base C03 also reports the defect repaired since (see meta.json base_note)
            r["base"] = e["base"]
            others = [p for p in others if p != "C03"]
        print(f"{'KILLED ' if killed else 'MISSED '} {e['name']:<48} {e['property']} rc={own.get('rc')} {','.join(own.get('oracles', []))}"
              + (f"  also: {','.join(others)}" if others else "") + (f"  ERROR {r['error']}" if "error" in r else ""), flush=True)
        r["killed"] = killed
        return r

    with ThreadPoolExecutor(max_workers=jobs) as ex:
        results = list(ex.map(job, entries))
    prev = {}
    if only and os.path.isfile(out_path):
        try:
            prev = {r["name"]: r for r in json.load(open(out_path))["results"]}
        except Exception:
            prev = {}
    for r in results:
        prev[r["name"]] = r
    merged = [prev[k] for k in sorted(prev)] if only else results
    json.dump({"tier": tier, "seed": seed, "all_props": all_props, "results": merged}, open(out_path, "w"), indent=1)
    killed = sum(1 for r in results if r["killed"])
    print(f"{killed}/{len(results)} killed by the check of their own property ({tier} tier)")
    return 0 if killed == len(results) else 1


if __name__ == "__main__":
    sys.exit(main(sys.argv[1:]))
